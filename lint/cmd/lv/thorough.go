package main

import (
	"encoding/json"
	"fmt"
	"os"
	"os/exec"
	"path/filepath"
	"regexp"
	"sort"
	"strings"
	"sync"

	"lv/an"
	"lv/rules"
)

// thoroughExtras: (1) re-run the property's rules under two more build
// configurations and require the same verdicts; (2) self-validation: apply
// every seeded fault recorded for this property to a scratch copy of the
// current tree and require that the check reports it.
func thoroughExtras(prop *rules.Prop, tables *an.Tables, base *propRun) {
	if base.loadErr != nil {
		return
	}
	baseKeys := map[string]string{}
	for _, o := range base.obs {
		baseKeys[o.Key()] = o.Status
	}
	var cfgs []map[string]any
	for _, env := range [][]string{{"GOOS=windows", "GOARCH=amd64"}, {"GOOS=linux", "GOARCH=386"}} {
		pr := runProperty(prop, "thorough", tables, env)
		c := map[string]any{"env": env}
		if pr.loadErr != nil {
			base.obs = append(base.obs, an.Obligation{Rule: "load", Func: "-", Construct: fmt.Sprint(env), Status: an.Violated, Reason: pr.loadErr.Error()})
			continue
		}
		diff := 0
		for _, o := range pr.obs {
			if st, ok := baseKeys[o.Key()]; !ok || st != o.Status {
				diff++
				if o.Status == an.Violated {
					o.Reason = fmt.Sprintf("[%v] %s", env, o.Reason)
					o.Construct = o.Construct + " @" + fmt.Sprint(env)
					base.obs = append(base.obs, o)
				}
			}
		}
		c["obligations"] = len(pr.obs)
		c["differences"] = diff
		cfgs = append(cfgs, c)
	}
	base.extraCov["build_configurations"] = cfgs

	res := selfValidate(prop.ID)
	sum := map[string]any{"mutants": len(res)}
	var missed, skipped, caught []string
	for _, m := range res {
		switch m.Outcome {
		case "detected":
			caught = append(caught, m.Name+" ["+strings.Join(m.Rules, ",")+"]")
		case "skipped":
			skipped = append(skipped, m.Name+": "+m.Note)
		default:
			missed = append(missed, m.Name)
			fmt.Printf("SELFTEST-MISS: property=%s seeded fault %s is not reported by this check (%s)\n", prop.ID, m.Name, m.Note)
		}
	}
	sum["detected"], sum["missed"], sum["skipped"] = caught, missed, skipped
	base.extraCov["self_validation"] = sum
	fmt.Printf("  self-validation: %d seeded faults for %s: %d detected, %d missed, %d skipped\n", len(res), prop.ID, len(caught), len(missed), len(skipped))

	// the other direction: behaviour-preserving rewrites of the code the rules read must leave the check silent
	ben := benignValidate(prop.ID)
	bsum := map[string]any{"refactorings": len(ben)}
	var silent, alarms, bskipped []string
	for _, m := range ben {
		switch m.Outcome {
		case "silent":
			silent = append(silent, m.Name)
		case "skipped":
			bskipped = append(bskipped, m.Name+": "+m.Note)
		default:
			alarms = append(alarms, m.Name+" ["+strings.Join(m.Rules, ",")+"]")
			fmt.Printf("SELFTEST-FALSE-ALARM: property=%s behaviour-preserving refactoring %s makes this check report a violation (%s)\n", prop.ID, m.Name, strings.Join(m.Rules, ","))
		}
	}
	bsum["silent"], bsum["false_alarms"], bsum["skipped"] = len(silent), alarms, bskipped
	base.extraCov["benign_refactorings"] = bsum
	fmt.Printf("  self-validation: %d behaviour-preserving refactorings: %d silent, %d false alarms, %d skipped\n", len(ben), len(silent), len(alarms), len(bskipped))
}

// benignValidate applies every recorded behaviour-preserving refactoring
// (/verif/selftest/benign/*) to a scratch copy and runs the check for prop
// ("" = every property) against it; the expected outcome is silence.
func benignValidate(prop string) []mutant {
	dirs, _ := filepath.Glob(filepath.Join(verifDir(), "selftest", "benign", "*"))
	sort.Strings(dirs)
	props := []string{prop}
	if prop == "" {
		props = rules.PropIDs()
	}
	type job struct {
		m mutant
		p string
	}
	var jobs []job
	for _, d := range dirs {
		if _, err := os.Stat(filepath.Join(d, "patch.diff")); err != nil {
			continue
		}
		for _, p := range props {
			jobs = append(jobs, job{mutant{Name: "benign/" + filepath.Base(d), Dir: d}, p})
		}
	}
	res := make([]mutant, len(jobs))
	sem := make(chan struct{}, 12)
	var wg sync.WaitGroup
	for i, j := range jobs {
		wg.Add(1)
		go func(i int, m mutant, p string) {
			defer wg.Done()
			sem <- struct{}{}
			defer func() { <-sem }()
			r := runMutant(m, p)
			switch r.Outcome {
			case "detected":
				r.Outcome = "false-alarm"
			case "missed":
				r.Outcome, r.Note = "silent", ""
			}
			r.Name = r.Name + "@" + p
			res[i] = r
		}(i, j.m, j.p)
	}
	wg.Wait()
	return res
}

type mutant struct {
	Name    string   `json:"name"`
	Dir     string   `json:"dir"`
	Props   []string `json:"properties"`
	Outcome string   `json:"outcome"` // detected | missed | skipped
	Rules   []string `json:"rules_fired"`
	Note    string   `json:"note"`
}

// listMutants reads /verif/selftest/mutants/* (expect.json) and /verif/seeded/*/ (meta.json).
func listMutants(vd string) []mutant {
	var out []mutant
	dirs, _ := filepath.Glob(filepath.Join(vd, "selftest", "mutants", "*"))
	for _, d := range dirs {
		var e struct {
			Properties []string `json:"properties"`
		}
		b, err := os.ReadFile(filepath.Join(d, "expect.json"))
		if err != nil || json.Unmarshal(b, &e) != nil {
			continue
		}
		out = append(out, mutant{Name: filepath.Base(d), Dir: d, Props: e.Properties})
	}
	seeded, _ := filepath.Glob(filepath.Join(vd, "seeded", "*"))
	for _, d := range seeded {
		var e struct {
			Property string   `json:"property"`
			Also     []string `json:"also_properties"`
			Expected string   `json:"expected"`
		}
		b, err := os.ReadFile(filepath.Join(d, "meta.json"))
		if err != nil || json.Unmarshal(b, &e) != nil {
			continue
		}
		if e.Expected == "not-detected" {
			continue // recorded limits of the technique (DESIGN.md), not part of self-validation
		}
		out = append(out, mutant{Name: "seeded/" + filepath.Base(d), Dir: d, Props: append([]string{e.Property}, e.Also...)})
	}
	sort.Slice(out, func(i, j int) bool { return out[i].Name < out[j].Name })
	return out
}

var ruleFired = regexp.MustCompile(`(?m)^rule (\S+) violated`)

// runMutant applies one mutant to a scratch copy of the current tree and runs
// the check for prop against it in a subprocess.
func runMutant(m mutant, prop string) mutant {
	scratch, err := os.MkdirTemp("", "lvmut-")
	if err != nil {
		m.Outcome, m.Note = "skipped", err.Error()
		return m
	}
	defer os.RemoveAll(scratch)
	dst := filepath.Join(scratch, "repo")
	if out, err := exec.Command("cp", "-a", repoDir(), dst).CombinedOutput(); err != nil {
		m.Outcome, m.Note = "skipped", "copy failed: "+string(out)
		return m
	}
	ap := exec.Command("git", "apply", "--whitespace=nowarn", filepath.Join(m.Dir, "patch.diff"))
	ap.Dir = dst
	if out, err := ap.CombinedOutput(); err != nil {
		m.Outcome, m.Note = "skipped", "patch no longer applies to the current tree: "+strings.TrimSpace(string(out))
		return m
	}
	exe, _ := os.Executable()
	cmd := exec.Command(exe, "check", prop, "--no-write")
	cmd.Env = append(os.Environ(), "LV_REPO="+dst, "LV_VERIF="+verifDir())
	out, _ := cmd.CombinedOutput()
	if strings.Contains(string(out), "ANALYSIS-ERROR") && !strings.Contains(string(out), "VIOLATION") {
		m.Outcome, m.Note = "skipped", "the mutated tree does not load: "+firstLine(string(out))
		return m
	}
	seen := map[string]bool{}
	for _, g := range ruleFired.FindAllStringSubmatch(string(out), -1) {
		if !seen[g[1]] {
			seen[g[1]] = true
			m.Rules = append(m.Rules, g[1])
		}
	}
	sort.Strings(m.Rules)
	if strings.Contains(string(out), "VIOLATION property="+prop) {
		m.Outcome = "detected"
	} else {
		m.Outcome, m.Note = "missed", "no violation reported"
	}
	return m
}

func firstLine(s string) string {
	if i := strings.Index(s, "\n"); i >= 0 {
		return s[:i]
	}
	return s
}

// selfValidate runs every mutant recorded for prop ("" = each mutant against each of its properties).
func selfValidate(prop string) []mutant {
	var jobs []struct {
		m mutant
		p string
	}
	for _, m := range listMutants(verifDir()) {
		for _, p := range m.Props {
			if prop == "" || p == prop {
				jobs = append(jobs, struct {
					m mutant
					p string
				}{m, p})
			}
		}
	}
	res := make([]mutant, len(jobs))
	sem := make(chan struct{}, 12)
	var wg sync.WaitGroup
	for i, j := range jobs {
		wg.Add(1)
		go func(i int, m mutant, p string) {
			defer wg.Done()
			sem <- struct{}{}
			defer func() { <-sem }()
			r := runMutant(m, p)
			r.Name = r.Name + "@" + p
			res[i] = r
		}(i, j.m, j.p)
	}
	wg.Wait()
	return res
}

func cmdSelftest(args []string) int {
	prop := ""
	if len(args) > 0 {
		prop = args[0]
	}
	res := selfValidate(prop)
	miss := 0
	for _, m := range res {
		fmt.Printf("%-9s %-70s %s %s\n", m.Outcome, m.Name, strings.Join(m.Rules, ","), m.Note)
		if m.Outcome == "missed" {
			miss++
		}
	}
	fmt.Printf("selftest: %d seeded faults, %d missed\n", len(res), miss)
	ben := benignValidate(prop)
	fa := 0
	for _, m := range ben {
		if m.Outcome != "silent" {
			fmt.Printf("%-11s %-60s %s %s\n", m.Outcome, m.Name, strings.Join(m.Rules, ","), m.Note)
		}
		if m.Outcome == "false-alarm" {
			fa++
		}
	}
	fmt.Printf("selftest: %d refactoring x property runs, %d false alarms\n", len(ben), fa)
	miss += fa
	if miss > 0 {
		return 1
	}
	return 0
}

var _ = rules.IDs

package main

import (
	"fmt"

	"lv/an"
	"lv/rules"
)

// thoroughExtras re-runs the property's rules under two more build
// configurations and requires the same verdicts.
func thoroughExtras(prop *rules.Prop, tables *an.Tables, base *propRun) {
	if base.loadErr != nil {
		return
	}
	baseKeys := map[string]string{}
	for _, o := range base.obs {
		baseKeys[o.Key()] = o.Status
	}
	var cfgs []map[string]any
	for _, env := range [][]string{{"GOOS=windows", "GOARCH=amd64"}, {"GOOS=linux", "GOARCH=386"}} {
		pr := runProperty(prop, "thorough", tables, env)
		c := map[string]any{"env": env}
		if pr.loadErr != nil {
			base.obs = append(base.obs, an.Obligation{Rule: "load", Func: "-", Construct: fmt.Sprint(env), Status: an.Violated, Reason: pr.loadErr.Error()})
			continue
		}
		diff := 0
		for _, o := range pr.obs {
			if st, ok := baseKeys[o.Key()]; !ok || st != o.Status {
				diff++
				if o.Status == an.Violated {
					o.Reason = fmt.Sprintf("[%v] %s", env, o.Reason)
					o.Construct = o.Construct + " @" + fmt.Sprint(env)
					base.obs = append(base.obs, o)
				}
			}
		}
		c["obligations"] = len(pr.obs)
		c["differences"] = diff
		cfgs = append(cfgs, c)
	}
	base.extraCov["build_configurations"] = cfgs
}

func cmdSelftest(args []string) int {
	fmt.Println("selftest: not built yet")
	return 0
}

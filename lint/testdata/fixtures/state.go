// Package lvfixture holds tiny positive and negative examples for rules whose
// expected instance count on a healthy tree is zero. It is analysed on every
// run: each rule must report the *Bad functions and stay silent on *Good.
package lvfixture

import (
	"math/rand"
	"os"
	"sort"
	"strings"
	"sync"
	"sync/atomic"
	"time"
)

var counter int
var table = map[string]int{}
var list []int

// M4Bad writes package-level state after initialisation.
func M4Bad(k string) {
	counter++
	table[k] = 1
	list[0] = 2
	sort.Ints(list)
}

// M4Good only reads package-level state.
func M4Good(k string) int { return counter + table[k] + len(list) }

// M3Bad returns a closure that memoises in a captured variable.
func M3Bad() func(int) int {
	var last int
	memo := map[int]int{}
	return func(x int) int {
		last = x
		memo[x] = last
		return last
	}
}

// M3Good returns a closure that only reads what it captured and writes its
// own locals; the helper it calls locally may write the helper's captures.
func M3Good(k int) func(int) int {
	return func(x int) int {
		sum := 0
		add := func(y int) { sum += y }
		add(x)
		add(k)
		return sum
	}
}

type lazy struct {
	once sync.Once
	v    int
}

func (l *lazy) Get() int {
	l.once.Do(func() { l.v = 42 })
	return l.v
}

// D2Bad consults the clock, the random source and the environment.
func D2Bad() string {
	_ = rand.Int()
	return time.Now().String() + os.Getenv("HOME")
}

// D2Good uses time only for formatting a given value.
func D2Good(t time.Time) string { return t.Format(time.RFC3339) }

var bufPool = sync.Pool{New: func() any { return new(strings.Builder) }}

// M8Bad returns the pooled object dirty when it fails.
func M8Bad(fail bool) string {
	b := bufPool.Get().(*strings.Builder)
	defer bufPool.Put(b)
	b.WriteString("x")
	if fail {
		return ""
	}
	s := b.String()
	b.Reset()
	return s
}

// M8Good resets before first use.
func M8Good() string {
	b := bufPool.Get().(*strings.Builder)
	b.Reset()
	defer bufPool.Put(b)
	b.WriteString("x")
	return b.String()
}

var memo sync.Map

type memoKey struct {
	a, b string
}

// M9BadKey keys a process-wide table by an image of its inputs: ("ab","c") and ("a","bc") collide.
func M9BadKey(a, b string) int {
	k := a + b
	if v, ok := memo.Load(k); ok {
		return v.(int)
	}
	n := len(a)*1000 + len(b)
	memo.Store(k, n)
	return n
}

// M9GoodKey keys the table by the inputs themselves.
func M9GoodKey(a, b string) int {
	k := memoKey{a, b}
	if v, ok := memo.Load(k); ok {
		return v.(int)
	}
	n := len(a)*1000 + len(b)
	memo.Store(k, n)
	return n
}

var hits atomic.Int64

// M9Counter counts calls in a package-level counter.
func M9Counter() int64 { return hits.Add(1) }

// L1Bad keeps one pair for all entries.
func L1Bad(keys []string) [][]string {
	out := make([][]string, len(keys))
	pair := make([]string, 2)
	for i, k := range keys {
		pair[0], pair[1] = k, k
		out[i] = pair
	}
	return out
}

// L1Good allocates a pair per entry.
func L1Good(keys []string) [][]string {
	out := make([][]string, len(keys))
	for i, k := range keys {
		pair := make([]string, 2)
		pair[0], pair[1] = k, k
		out[i] = pair
	}
	return out
}

// L1Spread reuses a buffer but copies its content out.
func L1Spread(keys []string) []string {
	var out []string
	buf := make([]string, 2)
	for _, k := range keys {
		buf[0], buf[1] = k, k
		out = append(out, buf...)
	}
	return out
}

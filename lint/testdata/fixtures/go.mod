module github.com/osteele/liquid/lvfixture

go 1.23

// Package an holds the loader and the shared analyses of the lv checker.
package an

import (
	"fmt"
	"go/ast"
	"go/token"
	"go/types"
	"os"
	"sort"
	"strings"

	"golang.org/x/tools/go/callgraph"
	"golang.org/x/tools/go/callgraph/cha"
	"golang.org/x/tools/go/callgraph/vta"
	"golang.org/x/tools/go/packages"
	"golang.org/x/tools/go/ssa"
	"golang.org/x/tools/go/ssa/ssautil"
)

// ModPath is the module path of the repository under analysis.
const ModPath = "github.com/osteele/liquid"

// Prog is the loaded, type-checked and SSA-lowered repository.
type Prog struct {
	Dir   string
	Fset  *token.FileSet
	Pkgs  []*packages.Package // module packages, tests excluded
	SSA   *ssa.Program
	Funcs []*ssa.Function // every source function of the module (named, methods, anonymous) + package initialisers

	// Env records the build configuration used.
	Env []string

	ssaPkgs map[string]*ssa.Package // by path relative to the module ("" = root)
	cha     *callgraph.Graph
	vta     *callgraph.Graph
	funcSet map[*ssa.Function]bool
	fileOf  map[*token.File]*ast.File
}

// LoadOpts configures a load.
type LoadOpts struct {
	Dir      string
	ExtraEnv []string // e.g. GOOS=windows
	// MinPkgs is the minimum number of module packages expected.
	MinPkgs int
}

// Load parses, type-checks and builds SSA for every non-test package under dir.
func Load(o LoadOpts) (*Prog, error) {
	env := append(os.Environ(),
		"GOFLAGS=-mod=mod", "GOPROXY=off", "GOSUMDB=off", "GOWORK=off", "GOTOOLCHAIN=local")
	env = append(env, o.ExtraEnv...)
	fset := token.NewFileSet()
	cfg := &packages.Config{
		Mode:  packages.LoadAllSyntax,
		Dir:   o.Dir,
		Env:   env,
		Fset:  fset,
		Tests: false,
	}
	pkgs, err := packages.Load(cfg, "./...")
	if err != nil {
		return nil, fmt.Errorf("load: %w", err)
	}
	var errs []string
	packages.Visit(pkgs, nil, func(p *packages.Package) {
		for _, e := range p.Errors {
			errs = append(errs, e.Error())
		}
	})
	if len(errs) > 0 {
		sort.Strings(errs)
		if len(errs) > 8 {
			errs = errs[:8]
		}
		return nil, fmt.Errorf("load/type errors:\n  %s", strings.Join(errs, "\n  "))
	}
	p := &Prog{Dir: o.Dir, Fset: fset, Env: o.ExtraEnv, ssaPkgs: map[string]*ssa.Package{}, funcSet: map[*ssa.Function]bool{}, fileOf: map[*token.File]*ast.File{}}
	for _, pkg := range pkgs {
		if pkg.PkgPath == ModPath || strings.HasPrefix(pkg.PkgPath, ModPath+"/") {
			p.Pkgs = append(p.Pkgs, pkg)
		}
	}
	sort.Slice(p.Pkgs, func(i, j int) bool { return p.Pkgs[i].PkgPath < p.Pkgs[j].PkgPath })
	if len(p.Pkgs) < o.MinPkgs {
		return nil, fmt.Errorf("load: only %d module packages found under %s (expected at least %d)", len(p.Pkgs), o.Dir, o.MinPkgs)
	}
	prog, _ := ssautil.AllPackages(pkgs, ssa.InstantiateGenerics)
	prog.Build()
	p.SSA = prog
	for _, pkg := range p.Pkgs {
		sp := prog.Package(pkg.Types)
		if sp == nil {
			return nil, fmt.Errorf("load: no SSA package for %s", pkg.PkgPath)
		}
		p.ssaPkgs[RelPkg(pkg.PkgPath)] = sp
		for _, f := range pkg.Syntax {
			p.fileOf[fset.File(f.Pos())] = f
		}
		p.collectFuncs(sp)
	}
	sort.Slice(p.Funcs, func(i, j int) bool { return FuncName(p.Funcs[i]) < FuncName(p.Funcs[j]) })
	for _, f := range p.Funcs {
		if f.Blocks == nil && f.Synthetic == "" {
			return nil, fmt.Errorf("load: module function %s has no SSA body", FuncName(f))
		}
	}
	// The rules assume plain Go: no cgo, unsafe, linkname or build constraints.
	for _, pkg := range p.Pkgs {
		for _, imp := range pkg.Types.Imports() {
			if imp.Path() == "unsafe" || imp.Path() == "C" {
				return nil, fmt.Errorf("load: %s imports %s; the rules do not model it", pkg.PkgPath, imp.Path())
			}
		}
		for _, f := range pkg.Syntax {
			for _, cg := range f.Comments {
				for _, c := range cg.List {
					if strings.HasPrefix(c.Text, "//go:linkname") {
						return nil, fmt.Errorf("load: go:linkname in %s", p.Pos(c.Pos()))
					}
					if (strings.HasPrefix(c.Text, "//go:build") || strings.HasPrefix(c.Text, "// +build")) && c.Pos() < f.Package {
						return nil, fmt.Errorf("load: build constraint in %s; the checker loads one configuration", p.Pos(c.Pos()))
					}
				}
			}
		}
	}
	return p, nil
}

func (p *Prog) collectFuncs(sp *ssa.Package) {
	add := func(f *ssa.Function) {}
	add = func(f *ssa.Function) {
		if f == nil || p.funcSet[f] {
			return
		}
		if f.Synthetic != "" && f.Name() != "init" {
			return
		}
		p.funcSet[f] = true
		p.Funcs = append(p.Funcs, f)
		for _, a := range f.AnonFuncs {
			add(a)
		}
	}
	names := make([]string, 0, len(sp.Members))
	for n := range sp.Members {
		names = append(names, n)
	}
	sort.Strings(names)
	for _, n := range names {
		switch m := sp.Members[n].(type) {
		case *ssa.Function:
			add(m)
		case *ssa.Type:
			t := m.Type()
			for _, tt := range []types.Type{t, types.NewPointer(t)} {
				ms := p.SSA.MethodSets.MethodSet(tt)
				for i := 0; i < ms.Len(); i++ {
					fn := p.SSA.MethodValue(ms.At(i))
					if fn != nil && fn.Synthetic == "" && fn.Pkg == sp {
						add(fn)
					}
				}
			}
		}
	}
}

// RelPkg strips the module path from a package path ("" for the root package).
func RelPkg(path string) string {
	if path == ModPath {
		return ""
	}
	return strings.TrimPrefix(path, ModPath+"/")
}

// Package returns the SSA package at the module-relative path.
func (p *Prog) Package(rel string) *ssa.Package { return p.ssaPkgs[rel] }

// InModule reports whether fn is a source function of the module.
func (p *Prog) InModule(fn *ssa.Function) bool { return p.funcSet[fn] }

// IsModulePkg reports whether the types.Package belongs to the module.
func IsModulePkg(pkg *types.Package) bool {
	return pkg != nil && (pkg.Path() == ModPath || strings.HasPrefix(pkg.Path(), ModPath+"/"))
}

// Func finds a function by its short name, e.g. "render.Render",
// "(*render.BlockNode).render", "tags.cycleTag$1". nil if absent.
func (p *Prog) Func(name string) *ssa.Function {
	for _, f := range p.Funcs {
		if FuncName(f) == name {
			return f
		}
	}
	// the same function under another form of declaration: a method with a value or a pointer
	// receiver, or a package-level function of the same name ("(pkg.T).m", "(*pkg.T).m", "pkg.m")
	if strings.HasPrefix(name, "(") {
		if i := strings.Index(name, ")."); i > 0 {
			recv, meth := strings.TrimPrefix(name[1:i], "*"), name[i+2:]
			pkg := recv
			if j := strings.LastIndex(recv, "."); j >= 0 {
				pkg = recv[:j]
			}
			for _, alt := range []string{"(" + recv + ")." + meth, "(*" + recv + ")." + meth, pkg + "." + meth} {
				if alt == name {
					continue
				}
				for _, f := range p.Funcs {
					if FuncName(f) == alt {
						return f
					}
				}
			}
		}
	}
	return nil
}

// CHA returns the class-hierarchy call graph (built on first use).
func (p *Prog) CHA() *callgraph.Graph {
	if p.cha == nil {
		p.cha = cha.CallGraph(p.SSA)
	}
	return p.cha
}

// VTA returns the variable-type-analysis call graph.
func (p *Prog) VTA() *callgraph.Graph {
	if p.vta == nil {
		p.vta = vta.CallGraph(ssautil.AllFunctions(p.SSA), p.CHA())
	}
	return p.vta
}

// Pos renders a position relative to the repository root.
func (p *Prog) Pos(pos token.Pos) string {
	if !pos.IsValid() {
		return "-"
	}
	ps := p.Fset.Position(pos)
	fn := strings.TrimPrefix(ps.Filename, p.Dir+"/")
	return fmt.Sprintf("%s:%d", fn, ps.Line)
}

// File returns the module-relative file name of a position.
func (p *Prog) File(pos token.Pos) string {
	if !pos.IsValid() {
		return ""
	}
	return strings.TrimPrefix(p.Fset.Position(pos).Filename, p.Dir+"/")
}

// IsGenerated reports whether the file holding pos carries the standard
// "Code generated ... DO NOT EDIT." header.
func (p *Prog) IsGenerated(pos token.Pos) bool {
	if !pos.IsValid() {
		return false
	}
	f := p.fileOf[p.Fset.File(pos)]
	if f == nil {
		return false
	}
	return ast.IsGenerated(f)
}

// FuncPos is the best source position for a function.
func FuncPos(f *ssa.Function) token.Pos {
	if f.Pos().IsValid() {
		return f.Pos()
	}
	if f.Syntax() != nil {
		return f.Syntax().Pos()
	}
	return token.NoPos
}

// FuncName is the short, stable name used in keys and reports.
func FuncName(f *ssa.Function) string {
	if f == nil {
		return "<nil>"
	}
	s := f.String()
	s = strings.ReplaceAll(s, ModPath+"/", "")
	s = strings.ReplaceAll(s, ModPath, "liquid")
	return s
}

// TypeName is the short name of a type.
func TypeName(t types.Type) string {
	if t == nil {
		return "<nil>"
	}
	return types.TypeString(t, func(p *types.Package) string {
		if p.Path() == ModPath {
			return "liquid"
		}
		return strings.TrimPrefix(p.Path(), ModPath+"/")
	})
}

// InstrPos finds a usable position for an instruction, falling back to
// operands and neighbours when the instruction itself has none.
func InstrPos(in ssa.Instruction) token.Pos {
	if in.Pos().IsValid() {
		return in.Pos()
	}
	var ops []*ssa.Value
	for _, op := range in.Operands(ops) {
		if *op != nil && (*op).Pos().IsValid() {
			return (*op).Pos()
		}
	}
	if b := in.Block(); b != nil {
		for _, x := range b.Instrs {
			if x.Pos().IsValid() {
				return x.Pos()
			}
		}
		return FuncPos(b.Parent())
	}
	return token.NoPos
}

package an

import (
	"bufio"
	"crypto/sha1"
	"encoding/hex"
	"encoding/json"
	"fmt"
	"go/token"
	"os"
	"path/filepath"
	"sort"
	"strings"
)

// Status of an obligation.
const (
	Discharged = "discharged" // by an actual guard / dataflow / structural argument
	Trivial    = "trivial"    // by type or constant
	Justified  = "justified"  // by the reviewed justification table
	Violated   = "violation"
	Known      = "known-finding"
)

// An Obligation is one instance of a rule: a construct and the verdict.
type Obligation struct {
	Rule      string `json:"rule"`
	Func      string `json:"func"`
	Construct string `json:"construct"`
	Pos       string `json:"pos"`
	Status    string `json:"status"`
	Reason    string `json:"reason"`
}

// Key identifies an obligation independent of line numbers.
func (o Obligation) Key() string { return o.Rule + "|" + o.Func + "|" + o.Construct }

// Result collects the obligations of one rule run.
type Result struct {
	P     *Prog
	Rule  string
	Obs   []Obligation
	Notes []string
	// Counts are named instance counts (for floors and evidence).
	Counts map[string]int
}

// NewResult makes an empty result for a rule.
func NewResult(p *Prog, rule string) *Result {
	return &Result{P: p, Rule: rule, Counts: map[string]int{}}
}

// Add records an obligation.
func (r *Result) Add(fn, construct string, pos token.Pos, status, reason string) {
	r.Obs = append(r.Obs, Obligation{Rule: r.Rule, Func: fn, Construct: construct, Pos: r.P.Pos(pos), Status: status, Reason: reason})
}

// OK records a discharged obligation.
func (r *Result) OK(fn, construct string, pos token.Pos, reason string) {
	r.Add(fn, construct, pos, Discharged, reason)
}

// Triv records an obligation discharged by type/constant.
func (r *Result) Triv(fn, construct string, pos token.Pos, reason string) {
	r.Add(fn, construct, pos, Trivial, reason)
}

// Bad records a violated obligation.
func (r *Result) Bad(fn, construct string, pos token.Pos, reason string) {
	r.Add(fn, construct, pos, Violated, reason)
}

// Notef adds a free-text note to the run (printed and kept in the evidence).
func (r *Result) Notef(format string, a ...any) { r.Notes = append(r.Notes, fmt.Sprintf(format, a...)) }

// Floor fails the rule when a named count is below its hand-confirmed minimum:
// a rule that matches nothing passes vacuously forever.
func (r *Result) Floor(name string, min int) {
	got := r.Counts[name]
	if got < min {
		r.Add("-", "floor:"+name, token.NoPos, Violated,
			fmt.Sprintf("rule %s found %d %s, fewer than the %d confirmed by hand: the anchor the rule needs was not resolved", r.Rule, got, name, min))
	}
}

// ---------------------------------------------------------------------------
// Tables: justification table and known findings.

// JustEntry is one reviewed obligation that holds by a whole-program invariant.
type JustEntry struct {
	Rule      string `json:"rule"`
	Func      string `json:"func"`
	Construct string `json:"construct"`
	Reason    string `json:"reason"`
}

// Tables are the committed, never-written-at-run-time side inputs.
type Tables struct {
	Justified []JustEntry
	Known     []KnownEntry
	Fixed     []string
	usedJust  map[int]bool
}

// KnownEntry is a "finding:" line of KNOWN_FINDINGS.txt.
type KnownEntry struct {
	Property string
	Key      string // rule|func|construct
	Text     string
}

// LoadTables reads tables/justified.json and KNOWN_FINDINGS.txt under verifDir.
func LoadTables(verifDir string) (*Tables, error) {
	t := &Tables{usedJust: map[int]bool{}}
	b, err := os.ReadFile(filepath.Join(verifDir, "tables", "justified.json"))
	if err == nil {
		if err := json.Unmarshal(b, &t.Justified); err != nil {
			return nil, fmt.Errorf("tables/justified.json: %w", err)
		}
	} else if !os.IsNotExist(err) {
		return nil, err
	}
	f, err := os.Open(filepath.Join(verifDir, "KNOWN_FINDINGS.txt"))
	if err == nil {
		defer f.Close()
		sc := bufio.NewScanner(f)
		for sc.Scan() {
			line := strings.TrimSpace(sc.Text())
			switch {
			case strings.HasPrefix(line, "finding:"):
				// finding: property=C18 key=<rule|func|construct> :: text
				rest := strings.TrimSpace(strings.TrimPrefix(line, "finding:"))
				var ke KnownEntry
				if i := strings.Index(rest, "::"); i >= 0 {
					ke.Text = strings.TrimSpace(rest[i+2:])
					rest = strings.TrimSpace(rest[:i])
				}
				for _, fld := range strings.SplitN(rest, " ", 2) {
					fld = strings.TrimSpace(fld)
					if strings.HasPrefix(fld, "property=") {
						ke.Property = strings.TrimPrefix(fld, "property=")
					} else if strings.HasPrefix(fld, "key=") {
						ke.Key = strings.TrimPrefix(fld, "key=")
					}
				}
				if ke.Property == "" || ke.Key == "" {
					return nil, fmt.Errorf("KNOWN_FINDINGS.txt: malformed line %q", line)
				}
				t.Known = append(t.Known, ke)
			case strings.HasPrefix(line, "fixed:"):
				t.Fixed = append(t.Fixed, line)
			}
		}
	} else if !os.IsNotExist(err) {
		return nil, err
	}
	return t, nil
}

// Apply rewrites the status of violated obligations that the tables cover.
// Known findings are per property; the justification table is per rule.
func (t *Tables) Apply(property string, obs []Obligation) []Obligation {
	out := make([]Obligation, len(obs))
	copy(out, obs)
	for i := range out {
		o := &out[i]
		if o.Status != Violated {
			continue
		}
		for j, je := range t.Justified {
			if je.Rule == o.Rule && sameFuncLabel(je.Func, o.Func) && je.Construct == o.Construct {
				o.Status, o.Reason = Justified, "table: "+je.Reason
				t.usedJust[j] = true
				break
			}
		}
		if o.Status != Violated {
			continue
		}
		for _, ke := range t.Known {
			if ke.Property == property && ke.Key == o.Key() {
				o.Status = Known
				o.Reason = ke.Text + " [" + o.Reason + "]"
				break
			}
		}
	}
	return out
}

// ---------------------------------------------------------------------------
// Evidence.

// Evidence is the /verif/evidence/<id>.json document.
type Evidence struct {
	PropertyID  string         `json:"property_id"`
	Tier        string         `json:"tier"`
	Seed        int            `json:"seed"`
	Level       string         `json:"level"`
	Coverage    map[string]any `json:"coverage"`
	Assumptions []string       `json:"assumptions"`
	WallS       float64        `json:"wall_s"`
	Violations  int            `json:"violations"`
}

// WriteJSON writes v indented to path, creating the directory.
func WriteJSON(path string, v any) error {
	if err := os.MkdirAll(filepath.Dir(path), 0o755); err != nil {
		return err
	}
	b, err := json.MarshalIndent(v, "", " ")
	if err != nil {
		return err
	}
	return os.WriteFile(path, append(b, '\n'), 0o644)
}

// ShortHash is a short stable hash for replay file names.
func ShortHash(s string) string {
	h := sha1.Sum([]byte(s))
	return hex.EncodeToString(h[:6])
}

// SortObs orders obligations deterministically.
func SortObs(obs []Obligation) {
	sort.SliceStable(obs, func(i, j int) bool {
		if obs[i].Rule != obs[j].Rule {
			return obs[i].Rule < obs[j].Rule
		}
		if obs[i].Func != obs[j].Func {
			return obs[i].Func < obs[j].Func
		}
		return obs[i].Construct < obs[j].Construct
	})
}

// sameFuncLabel: the same function under another form of declaration - a value or a pointer receiver, or
// a package-level function of the same name in the same package - keeps its table entries.
func sameFuncLabel(a, b string) bool {
	if a == b {
		return true
	}
	norm := func(s string) string {
		if strings.HasPrefix(s, "(") {
			if i := strings.Index(s, ")."); i > 0 {
				recv := strings.TrimPrefix(s[1:i], "*")
				pkg := recv
				if j := strings.LastIndex(recv, "."); j >= 0 {
					pkg = recv[:j]
				}
				return pkg + "." + s[i+2:]
			}
		}
		return s
	}
	return norm(a) == norm(b)
}

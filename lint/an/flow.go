package an

import (
	"go/constant"
	"go/token"
	"go/types"
	"strings"

	"golang.org/x/tools/go/ssa"
)

// Short rewrites module package paths in s to their short form.
func Short(s string) string {
	s = strings.ReplaceAll(s, ModPath+"/", "")
	return strings.ReplaceAll(s, ModPath, "liquid")
}

// Callee returns the statically known callee of a call (function, method with
// static receiver, or a closure literal called directly), or nil.
func Callee(c *ssa.CallCommon) *ssa.Function { return c.StaticCallee() }

// CallName is a canonical, type-resolved name for the target of a call:
//
//	static:  "io.WriteString", "(*bytes.Buffer).WriteTo", "(reflect.Value).MapIndex", "render.Render"
//	invoke:  "(io.Writer).Write", "(reflect.Type).Kind", "(render.Context).Get"
//	builtin: "builtin.append"
//	dynamic: "" (call through a function value)
//
// Module package paths are shortened.
func CallName(c *ssa.CallCommon) string {
	if c.IsInvoke() {
		return "(" + TypeName(c.Value.Type()) + ")." + c.Method.Name()
	}
	switch v := c.Value.(type) {
	case *ssa.Builtin:
		return "builtin." + v.Name()
	}
	if f := c.StaticCallee(); f != nil {
		// an instance of a generic function goes by the name of the generic (slices.Reverse, not
		// slices.Reverse[[]any,any]); closures: name of the literal
		if o := f.Origin(); o != nil {
			f = o
		}
		return Short(f.String())
	}
	return ""
}

// CallOf returns the CallCommon if v is a call value.
func CallOf(v ssa.Value) *ssa.CallCommon {
	if c, ok := v.(*ssa.Call); ok {
		return &c.Call
	}
	return nil
}

// IsCallTo reports whether v is a call whose CallName is one of names.
func IsCallTo(v ssa.Value, names ...string) bool {
	c := CallOf(v)
	if c == nil {
		return false
	}
	n := CallName(c)
	for _, x := range names {
		if n == x {
			return true
		}
	}
	return false
}

// Args returns the actual arguments including the receiver for invoke calls
// (receiver first), mirroring the parameter list of a static callee.
func Args(c *ssa.CallCommon) []ssa.Value {
	if c.IsInvoke() {
		return append([]ssa.Value{c.Value}, c.Args...)
	}
	return c.Args
}

// IsNilConst reports whether v is the constant nil.
func IsNilConst(v ssa.Value) bool {
	c, ok := v.(*ssa.Const)
	return ok && c.Value == nil && !isBasicNonNil(c.Type())
}

func isBasicNonNil(t types.Type) bool {
	// zero-value constants of basic/struct types also have Value == nil in go/ssa
	switch u := t.Underlying().(type) {
	case *types.Basic:
		return u.Kind() != types.UntypedNil && u.Kind() != types.UnsafePointer
	case *types.Struct, *types.Array:
		return true
	}
	return false
}

// ConstInt returns the integer value of v if it is an integer constant.
func ConstInt(v ssa.Value) (int64, bool) {
	c, ok := v.(*ssa.Const)
	if !ok || c.Value == nil || c.Value.Kind() != constant.Int {
		return 0, false
	}
	return c.Int64(), true
}

// ConstString returns the string value of v if it is a string constant.
func ConstString(v ssa.Value) (string, bool) {
	c, ok := v.(*ssa.Const)
	if !ok || c.Value == nil || c.Value.Kind() != constant.String {
		return "", false
	}
	return constant.StringVal(c.Value), true
}

// ConstBool returns the boolean value of v if it is a boolean constant.
func ConstBool(v ssa.Value) (bool, bool) {
	c, ok := v.(*ssa.Const)
	if !ok || c.Value == nil || c.Value.Kind() != constant.Bool {
		return false, false
	}
	return constant.BoolVal(c.Value), true
}

// Strip looks through representation-only conversions.
func Strip(v ssa.Value) ssa.Value {
	for {
		switch x := v.(type) {
		case *ssa.ChangeType:
			v = x.X
		case *ssa.ChangeInterface:
			v = x.X
		case *ssa.MakeInterface:
			v = x.X
		default:
			return v
		}
	}
}

// StripIface looks through interface-to-interface conversions only.
func StripIface(v ssa.Value) ssa.Value {
	for {
		switch x := v.(type) {
		case *ssa.ChangeInterface:
			v = x.X
		default:
			return v
		}
	}
}

// ---------------------------------------------------------------------------
// Guards.

// A Guard is a branch condition known to hold (or not) at a program point.
type Guard struct {
	Cond ssa.Value
	True bool
	If   *ssa.If
}

// edgeDominates reports whether control can reach b only by taking edge d->s.
func edgeDominates(d, s, b *ssa.BasicBlock) bool {
	if !s.Dominates(b) {
		return false
	}
	for _, p := range s.Preds {
		if p == d {
			continue
		}
		if !s.Dominates(p) { // another way into s that does not come from s itself
			return false
		}
	}
	// d->s must be the only edge from d to s for the polarity to be meaningful
	return true
}

// GuardsAt returns the branch conditions that hold on every path to the entry
// of block b. Negations are normalised away (True flips).
func GuardsAt(b *ssa.BasicBlock) []Guard {
	var out []Guard
	fn := b.Parent()
	for _, d := range fn.Blocks {
		if len(d.Instrs) == 0 {
			continue
		}
		ifi, ok := d.Instrs[len(d.Instrs)-1].(*ssa.If)
		if !ok || len(d.Succs) != 2 || d.Succs[0] == d.Succs[1] {
			continue
		}
		for k := 0; k < 2; k++ {
			if edgeDominates(d, d.Succs[k], b) {
				cond, pol := ifi.Cond, k == 0
				for {
					u, ok := cond.(*ssa.UnOp)
					if !ok || u.Op != token.NOT {
						break
					}
					cond, pol = u.X, !pol
				}
				out = append(out, Guard{cond, pol, ifi})
			}
		}
	}
	return out
}

// GuardsAtInstr is GuardsAt for the block of an instruction.
func GuardsAtInstr(in ssa.Instruction) []Guard { return GuardsAt(in.Block()) }

// ---------------------------------------------------------------------------
// Backward walks.

// Stores returns the values stored into a local cell (Alloc) or through a
// free variable inside its function.
func Stores(addr ssa.Value) []ssa.Value {
	var out []ssa.Value
	refs := addr.Referrers()
	if refs == nil {
		return nil
	}
	for _, r := range *refs {
		if st, ok := r.(*ssa.Store); ok && st.Addr == addr {
			out = append(out, st.Val)
		}
	}
	return out
}

// StepFn gives the predecessors of a value in a backward walk; returning nil
// makes the value an origin.
type StepFn func(v ssa.Value) []ssa.Value

// StepValue follows a value to where it came from, looking through phis,
// conversions, tuple extraction, type assertions and loads of local cells.
func StepValue(v ssa.Value) []ssa.Value {
	switch x := v.(type) {
	case *ssa.Phi:
		return x.Edges
	case *ssa.ChangeType:
		return []ssa.Value{x.X}
	case *ssa.ChangeInterface:
		return []ssa.Value{x.X}
	case *ssa.MakeInterface:
		return []ssa.Value{x.X}
	case *ssa.Convert:
		return []ssa.Value{x.X}
	case *ssa.TypeAssert:
		return []ssa.Value{x.X}
	case *ssa.Extract:
		switch t := x.Tuple.(type) {
		case *ssa.TypeAssert:
			if x.Index == 0 {
				return []ssa.Value{t.X}
			}
		}
		return nil
	case *ssa.UnOp:
		if x.Op == token.MUL {
			if a, ok := x.X.(*ssa.Alloc); ok {
				if st := Stores(a); len(st) > 0 {
					return st
				}
			}
		}
	}
	return nil
}

// StepBase is StepValue plus "derived from the container": slices, element
// and field addresses/loads, map lookups. Used for "rooted at" questions.
func StepBase(v ssa.Value) []ssa.Value {
	if r := StepValue(v); r != nil {
		return r
	}
	switch x := v.(type) {
	case *ssa.Slice:
		return []ssa.Value{x.X}
	case *ssa.FieldAddr:
		return []ssa.Value{x.X}
	case *ssa.Field:
		return []ssa.Value{x.X}
	case *ssa.IndexAddr:
		return []ssa.Value{x.X}
	case *ssa.Index:
		return []ssa.Value{x.X}
	case *ssa.Lookup:
		return []ssa.Value{x.X}
	case *ssa.UnOp:
		if x.Op == token.MUL {
			return []ssa.Value{x.X}
		}
	case *ssa.Extract:
		switch t := x.Tuple.(type) {
		case *ssa.Lookup:
			if x.Index == 0 {
				return []ssa.Value{t.X}
			}
		case *ssa.Next:
			return []ssa.Value{t.Iter}
		}
	case *ssa.Range:
		return []ssa.Value{x.X}
	}
	return nil
}

// Origins returns the set of origin values of v under step (values for which
// step returns nil), visiting each value once.
func Origins(v ssa.Value, step StepFn) []ssa.Value {
	var out []ssa.Value
	seen := map[ssa.Value]bool{}
	var walk func(ssa.Value)
	walk = func(v ssa.Value) {
		if v == nil || seen[v] {
			return
		}
		seen[v] = true
		nx := step(v)
		if nx == nil {
			out = append(out, v)
			return
		}
		for _, n := range nx {
			walk(n)
		}
	}
	walk(v)
	return out
}

// Reaches reports whether the backward walk from v under step visits a value
// satisfying pred (including intermediate values).
func Reaches(v ssa.Value, step StepFn, pred func(ssa.Value) bool) bool {
	seen := map[ssa.Value]bool{}
	var walk func(ssa.Value) bool
	walk = func(v ssa.Value) bool {
		if v == nil || seen[v] {
			return false
		}
		seen[v] = true
		if pred(v) {
			return true
		}
		for _, n := range step(v) {
			if walk(n) {
				return true
			}
		}
		return false
	}
	return walk(v)
}

// ---------------------------------------------------------------------------
// Forward walks.

// ForwardUses visits every instruction that uses v, transitively through the
// value-preserving instructions selected by through (which returns the value
// to continue with, or nil to stop). Stores into local cells are followed to
// the loads of the cell.
func ForwardUses(v ssa.Value, through func(user ssa.Instruction, v ssa.Value) ssa.Value, visit func(user ssa.Instruction, v ssa.Value)) {
	seen := map[ssa.Value]bool{}
	var walk func(ssa.Value)
	walk = func(v ssa.Value) {
		if v == nil || seen[v] {
			return
		}
		seen[v] = true
		refs := v.Referrers()
		if refs == nil {
			return
		}
		for _, r := range *refs {
			visit(r, v)
			if st, ok := r.(*ssa.Store); ok && st.Val == v {
				if a, ok := st.Addr.(*ssa.Alloc); ok {
					// follow loads of the cell
					if ar := a.Referrers(); ar != nil {
						for _, l := range *ar {
							if u, ok := l.(*ssa.UnOp); ok && u.Op == token.MUL && u.X == a {
								walk(u)
							}
						}
					}
				}
				continue
			}
			if nv := through(r, v); nv != nil {
				walk(nv)
			}
		}
	}
	walk(v)
}

// ThroughValue continues a forward walk through phis, conversions and
// interface wrapping.
func ThroughValue(user ssa.Instruction, v ssa.Value) ssa.Value {
	switch x := user.(type) {
	case *ssa.Phi:
		return x
	case *ssa.ChangeType:
		return x
	case *ssa.ChangeInterface:
		return x
	case *ssa.MakeInterface:
		return x
	case *ssa.Convert:
		return x
	}
	return nil
}

// ---------------------------------------------------------------------------
// Misc.

// EachInstr calls f on every instruction of fn.
func EachInstr(fn *ssa.Function, f func(ssa.Instruction)) {
	for _, b := range fn.Blocks {
		for _, in := range b.Instrs {
			f(in)
		}
	}
}

// EachCall calls f on every call-like instruction (call, go, defer) of fn.
func EachCall(fn *ssa.Function, f func(ssa.CallInstruction)) {
	EachInstr(fn, func(in ssa.Instruction) {
		if c, ok := in.(ssa.CallInstruction); ok {
			f(c)
		}
	})
}

// Outermost returns the outermost enclosing named function of fn.
func Outermost(fn *ssa.Function) *ssa.Function {
	for fn.Parent() != nil {
		fn = fn.Parent()
	}
	return fn
}

// IsInit reports whether fn is a package initialiser (or nested in one).
func IsInit(fn *ssa.Function) bool {
	o := Outermost(fn)
	return o.Name() == "init" || strings.HasPrefix(o.Name(), "init#")
}

// NamedOf returns the named type behind t, looking through one pointer.
func NamedOf(t types.Type) *types.Named {
	if p, ok := t.Underlying().(*types.Pointer); ok {
		t = p.Elem()
	}
	if p, ok := t.(*types.Pointer); ok {
		t = p.Elem()
	}
	n, _ := t.(*types.Named)
	return n
}

// IsNamed reports whether t (or *t) is the named type pkgRel.name of the
// module (pkgRel "" is the root package) or of an outside package given by
// its full path.
func IsNamed(t types.Type, pkg, name string) bool {
	n := NamedOf(t)
	if n == nil || n.Obj().Name() != name {
		return false
	}
	if n.Obj().Pkg() == nil {
		return pkg == ""
	}
	p := n.Obj().Pkg().Path()
	return p == pkg || RelPkg(p) == pkg && IsModulePkg(n.Obj().Pkg())
}

// IsInterface reports whether t's underlying type is an interface.
func IsInterface(t types.Type) bool {
	_, ok := t.Underlying().(*types.Interface)
	return ok
}

// IsErrorType reports whether t is the predeclared error type.
func IsErrorType(t types.Type) bool {
	return types.Identical(t, types.Universe.Lookup("error").Type())
}

// GlobalStores returns the values stored into a package-level variable by any
// function of its package (go/ssa keeps no referrer lists for globals).
func GlobalStores(g *ssa.Global) []ssa.Value {
	var out []ssa.Value
	pkg := g.Package()
	if pkg == nil {
		return nil
	}
	var scan func(fn *ssa.Function)
	scan = func(fn *ssa.Function) {
		EachInstr(fn, func(in ssa.Instruction) {
			if st, ok := in.(*ssa.Store); ok && st.Addr == ssa.Value(g) {
				out = append(out, st.Val)
			}
		})
		for _, a := range fn.AnonFuncs {
			scan(a)
		}
	}
	for _, m := range pkg.Members {
		if fn, ok := m.(*ssa.Function); ok {
			scan(fn)
		}
	}
	return out
}

// AllPathsGuarded reports whether every path from the function entry to the
// start of block b takes at least one branch edge accepted by ok(cond, taken)
// (negations normalised away). Unlike GuardsAt it understands disjunctions:
// `case A, B:` bodies and `x == nil || y == nil` returns.
func AllPathsGuarded(b *ssa.BasicBlock, ok func(cond ssa.Value, taken bool) bool) bool {
	entry := b.Parent().Blocks[0]
	memo := map[*ssa.BasicBlock]int{} // 1 in progress, 2 guarded, 3 not
	norm := func(cond ssa.Value, taken bool) (ssa.Value, bool) {
		for {
			u, isNot := cond.(*ssa.UnOp)
			if !isNot || u.Op != token.NOT {
				return cond, taken
			}
			cond, taken = u.X, !taken
		}
	}
	var walk func(blk *ssa.BasicBlock) bool
	var edgeOK func(p, blk *ssa.BasicBlock) bool
	// condOK: every path that reaches the end of block at with v == taken is guarded.
	var condOK func(v ssa.Value, taken bool, at *ssa.BasicBlock, depth int) bool
	condOK = func(v ssa.Value, taken bool, at *ssa.BasicBlock, depth int) bool {
		if c, isConst := ConstBool(v); isConst {
			if c != taken {
				return true // infeasible
			}
			return walk(at)
		}
		v, taken = norm(v, taken)
		if ok(v, taken) {
			return true
		}
		// a condition materialised as a boolean phi (x && y, x || y used as a value, as in
		// the cases of a tagless switch): thread each incoming edge
		if ph, isPhi := v.(*ssa.Phi); isPhi && ph.Block() == at && depth < 8 {
			for j, e := range ph.Edges {
				q := at.Preds[j]
				if c, isConst := ConstBool(e); isConst {
					if c != taken {
						continue
					}
					if !edgeOK(q, at) {
						return false
					}
					continue
				}
				if condOK(e, taken, q, depth+1) {
					continue
				}
				return false
			}
			return true
		}
		return walk(at)
	}
	edgeOK = func(p, blk *ssa.BasicBlock) bool {
		if ifi, isIf := p.Instrs[len(p.Instrs)-1].(*ssa.If); isIf && len(p.Succs) == 2 && p.Succs[0] != p.Succs[1] {
			return condOK(ifi.Cond, p.Succs[0] == blk, p, 0)
		}
		return walk(p)
	}
	walk = func(blk *ssa.BasicBlock) bool {
		if blk == entry {
			return false // reached the entry without a guard
		}
		switch memo[blk] {
		case 1, 2:
			return true // loop (decided by the other paths) or known
		case 3:
			return false
		}
		memo[blk] = 1
		res := true
		for _, p := range blk.Preds {
			if !edgeOK(p, blk) {
				res = false
				break
			}
		}
		if res {
			memo[blk] = 2
		} else {
			memo[blk] = 3
		}
		return res
	}
	return walk(b)
}

// Deref looks through loads of local variables that are assigned exactly once
// (variables that became memory cells only because a closure captures them).
func Deref(v ssa.Value) ssa.Value {
	for depth := 0; depth < 6; depth++ {
		u, ok := v.(*ssa.UnOp)
		if !ok || u.Op != token.MUL {
			return v
		}
		a, ok := u.X.(*ssa.Alloc)
		if !ok {
			return v
		}
		st := Stores(a)
		if len(st) != 1 {
			return v
		}
		// no store through a closure's free variable either
		if refs := a.Referrers(); refs != nil {
			for _, r := range *refs {
				if mc, ok := r.(*ssa.MakeClosure); ok {
					fn := mc.Fn.(*ssa.Function)
					for i, b := range mc.Bindings {
						if b == ssa.Value(a) && i < len(fn.FreeVars) && len(Stores(fn.FreeVars[i])) > 0 {
							return v
						}
					}
				}
			}
		}
		v = st[0]
	}
	return v
}

package liquid

import (
	"strings"
	"testing"
)

// Property C11: tablerow wraps each item in a td and every cols items in a tr, and break ends
// the innermost enclosing loop. When {% break %} fires in the middle of a row, the decorator
// (tags/iteration_tags.go:tableRowDecorator.after) closes the </td> but emits </tr> only when
// the item is the last column of a row or the last item of the collection - neither is true for
// the item at which the loop was broken, so the <tr> that was opened is never closed and the
// HTML is unbalanced.
//
// Correct behaviour (and what Shopify Liquid does: it writes "</tr>" after the loop,
// whatever ended it): every <tr> that is opened is closed, i.e. the output is
// <tr class="row1"><td class="col1">1</td><td class="col2"></td></tr>
func TestHuntDemo(t *testing.T) {
	defer func() {
		if r := recover(); r != nil {
			t.Errorf("panic: %v", r)
		}
	}()
	src := `{% tablerow i in (1..5) cols:3 %}{% if i == 2 %}{% break %}{% endif %}{{ i }}{% endtablerow %}`
	out, err := NewEngine().ParseAndRenderString(src, map[string]any{})
	if err != nil {
		t.Fatalf("unexpected error: %v", err)
	}
	opened, closed := strings.Count(out, "<tr "), strings.Count(out, "</tr>")
	if opened != closed {
		t.Errorf("tablerow with break leaves a row open: %d <tr> but %d </tr> in %q", opened, closed, out)
	}
	want := `<tr class="row1"><td class="col1">1</td><td class="col2"></td></tr>`
	if out != want {
		t.Errorf("got  %q\nwant %q", out, want)
	}
}

package liquid

import (
	"strconv"
	"testing"
)

// C17: "round rounds half up to the requested number of places ... results are
// exact whenever operands and result are exactly representable as 64-bit floats."
//
// Rounding a whole number (to zero or more decimal places) must return that same
// number: 9007199254740991 (2^53-1) and 4503599627370497 (2^52+1) are exactly
// representable as float64, and so is the correct result (the number itself).
// The filter computes math.Floor(n*exp+0.5)/exp; n+0.5 (and n*10^k) is not
// representable for these magnitudes, so the intermediate is rounded by the FPU
// and the filter returns a DIFFERENT integer (…992 for …991, …498 for …497,
// …990 for round: 1). The same formula turns 0.49999999999999994 into 1.
//
// The comparison is numeric, so the way large floats are printed is not what
// makes this test fail.
func TestHuntDemo(t *testing.T) {
	e := NewEngine()
	cases := []struct {
		src  string
		want float64
	}{
		{`{{ 9007199254740991 | round }}`, 9007199254740991},
		{`{{ 9007199254740991 | round: 1 }}`, 9007199254740991},
		{`{{ -9007199254740991 | round }}`, -9007199254740991},
		{`{{ 4503599627370497 | round }}`, 4503599627370497},
		{`{{ -4503599627370497 | round }}`, -4503599627370497},
		{`{{ 0.49999999999999994 | round }}`, 0},
	}
	for _, c := range cases {
		func() {
			defer func() {
				if r := recover(); r != nil {
					t.Errorf("%s: panic: %v", c.src, r)
				}
			}()
			out, err := e.ParseAndRenderString(c.src, nil)
			if err != nil {
				t.Errorf("%s: unexpected error: %v", c.src, err)
				return
			}
			got, perr := strconv.ParseFloat(out, 64)
			if perr != nil {
				t.Errorf("%s: output %q is not a number", c.src, out)
				return
			}
			if got != c.want {
				t.Errorf("%s: rendered %q (= %.0f), want %.0f: rounding changed an exactly representable value", c.src, out, got, c.want)
			}
		}()
	}
}

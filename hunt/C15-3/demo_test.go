package liquid

import "testing"

// An array whose elements are pointers ([]*int, []*string, or []any holding them):
// indexing and iteration dereference the elements ({{ a[0] }} renders 2, a nil
// pointer renders as nothing and == nil), but the array filters see the raw
// pointers:
//   - join prints fmt.Sprint of the pointer, i.e. a memory address that differs from
//     run to run ("0xc000014ff8"), and prints "<nil>" for a nil pointer instead of
//     skipping it;
//   - compact keeps nil pointers (a typed nil pointer inside an `any` is != nil);
//   - sort leaves the array unsorted (values.Less has no case for reflect.Ptr).
//
// Correct behaviour: join agrees with indexing and skips nils ("2,1"), compact
// removes exactly the nils (2 elements left); sort should order by the pointed-to
// values (not asserted here). C15: "first, last, size, join and map agree with indexing, element count,
// separator joining (nils skipped)", "compact removes exactly the nils", and typed
// slices are accepted exactly as generic ones.
func TestHuntDemo(t *testing.T) {
	two, one := 2, 1
	bindings := map[string]any{"a": []*int{&two, nil, &one}}
	var out string
	var err error
	func() {
		defer func() {
			if r := recover(); r != nil {
				t.Errorf("panic: %v", r)
			}
		}()
		out, err = NewEngine().ParseAndRenderString(
			`{% for x in a %}[{{ x }}]{% endfor %}|{{ a[0] }}|{{ a | join: ',' }}|{{ a | compact | size }}`, bindings)
	}()
	if t.Failed() {
		return
	}
	if err != nil {
		t.Fatalf("unexpected error: %v", err)
	}
	if want := "[2][][1]|2|2,1|2"; out != want {
		t.Errorf("filters on []*int{&2, nil, &1}: got %q, want %q", out, want)
	}
}

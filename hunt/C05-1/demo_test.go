package liquid

import (
	"fmt"
	"testing"
)

// Property C05: "A string value printed by an object is emitted exactly, with no
// escaping, re-encoding or truncation" and "the body of a raw block is emitted exactly
// as written".
//
// A whitespace-control hyphen on a NEIGHBOURING tag or object must only strip the
// literal template text next to it (that is what Liquid does: the hyphen strips the
// adjacent text token at parse time). In this library the trimming is done on the
// output stream by render.trimWriter, which cannot tell template text from the bytes
// an object or a raw block writes: a pending right trim strips the leading whitespace
// of whatever is written next (trimWriter.Write), and a left trim strips the trailing
// whitespace of whatever was written last (trimWriter.TrimLeft). So a string value such
// as "  a  " and a raw body such as "  x  " lose their own leading/trailing whitespace
// when the tag before them ends in "-}}"/"-%}" or the tag after them starts with
// "{{-"/"{%-".
//
// Correct behaviour: the value / raw body reaches the output byte for byte; only
// literal text adjacent to the hyphen is trimmed.
func TestHuntDemo(t *testing.T) {
	engine := NewEngine()
	bindings := Bindings{"s": "  a  ", "nl": "\n\tb\n"}
	cases := []struct{ src, want string }{
		// right trim of the preceding object eats the value's leading whitespace
		{`{{ 1 -}}{{ s }}|`, "1  a  |"},
		// left trim of the following object eats the value's trailing whitespace
		{`|{{ s }}{{- 1 }}`, "|  a  1"},
		{`{% assign x = 1 -%}{{ nl }}{%- assign y = 2 %}`, "\n\tb\n"},
		// the same inside a block whose tags carry hyphens
		{`{% if true -%}{{ s }}{%- endif %}|`, "  a  |"},
		// a raw body is trimmed by the hyphens of its neighbours
		{`{{ 1 -}}{% raw %}  x  {% endraw %}{{- 1 }}`, "1  x  1"},
	}
	for _, c := range cases {
		func() {
			defer func() {
				if r := recover(); r != nil {
					t.Errorf("%q: panic: %v", c.src, r)
				}
			}()
			got, err := engine.ParseAndRenderString(c.src, bindings)
			if err != nil {
				t.Errorf("%q: unexpected error: %v", c.src, err)
				return
			}
			if got != c.want {
				t.Errorf("%q: rendered %s, want %s (a string value / raw body was truncated by a neighbour's trim marker)",
					c.src, fmt.Sprintf("%q", got), fmt.Sprintf("%q", c.want))
			}
		}()
	}
}

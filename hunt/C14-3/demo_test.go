package liquid

import (
	"fmt"
	"os"
	"path/filepath"
	"testing"
)

// C14: the include argument is evaluated as an expression and must be a string; "a
// non-string argument ... fails the render with a SourceError". The include tag hands its
// argument text to expressions.EvaluateString at render time. The expression scanner also
// recognises the internal statement selectors "%assign ", "%loop " (used by the assign and
// for tags), so an argument such as `%assign x = 1` or `%loop x in y` parses successfully as
// a *statement*, leaving the parsed expression function nil. Parse wraps that nil function in
// an expression and Evaluate calls it: a nil-pointer panic escapes Template.Render.
//
// Correct behaviour: `{% include %assign x = 1 %}` is not an expression with a string value,
// so rendering (or parsing) must return a SourceError; it must never panic.
func TestHuntDemo(t *testing.T) {
	dir := t.TempDir()
	if err := os.WriteFile(filepath.Join(dir, "inc.html"), []byte("inc"), 0o644); err != nil {
		t.Fatal(err)
	}
	e := NewEngine()
	for _, src := range []string{
		`{% include %assign x = 1 %}`,
		`{% include %loop x in y %}`,
	} {
		func() {
			defer func() {
				if r := recover(); r != nil {
					msg := fmt.Sprint(r)
					if len(msg) > 120 {
						msg = msg[:120] + "..."
					}
					t.Errorf("%s: panic escaped the render instead of a SourceError: %s", src, msg)
				}
			}()
			tpl, err := e.ParseTemplateLocation([]byte(src), filepath.Join(dir, "main.html"), 1)
			if err != nil {
				return // rejecting the template at parse time is fine
			}
			out, err := tpl.RenderString(Bindings{"y": []int{1, 2}})
			if err == nil {
				t.Errorf("%s: rendered %q without error; want a SourceError", src, out)
			}
		}()
	}
}

package liquid

import (
	"fmt"
	"testing"
)

// huntDemoFlag is a named boolean type, as produced by many Go APIs (feature flags, enums over
// bool, generated code).
type huntDemoFlag bool

type huntDemoSettings struct {
	Enabled huntDemoFlag
}

// Property C10: if/elsif/else renders the first branch whose condition is truthy, where every
// value is truthy except nil and false; unless is if negated; `and`/`or` use the same test.
//
// The library decides truthiness with the Go interface comparison `value != false`
// (tags/control_flow_tags.go ifTagCompiler, expressions.Not, values.wrapperValue.Test). An
// interface holding huntDemoFlag(false) is not == to the untyped constant false because the
// dynamic types differ, so a false of a named bool type counts as TRUE. Everything else in the
// library treats the same value as false: `flag == false` is true, {% case flag %}{% when false %}
// matches, {{ flag }} prints "false", and `flag | default: "x"` yields "x".
//
// Correct behaviour: a false of kind bool is false, so each template below renders "B".
func TestHuntDemo(t *testing.T) {
	render := func(tpl string, b map[string]any) (out string) {
		defer func() {
			if r := recover(); r != nil {
				out = fmt.Sprintf("PANIC: %v", r)
			}
		}()
		s, err := NewEngine().ParseAndRenderString(tpl, b)
		if err != nil {
			return "ERROR: " + err.Error()
		}
		return s
	}
	off := huntDemoFlag(false)
	b := map[string]any{
		"flag":  off,
		"pflag": &off,
		"cfg":   huntDemoSettings{},
		"flags": []huntDemoFlag{false},
	}
	// controls: the library itself says that this value is false
	for tpl, want := range map[string]string{
		"{{ flag }}": "false",
		"{% if flag == false %}eq{% else %}ne{% endif %}":          "eq",
		"{% case flag %}{% when false %}F{% else %}E{% endcase %}": "F",
		"{{ flag | default: 'dflt' }}":                             "dflt",
		"{% if plain %}A{% else %}B{% endif %}":                    "B",
	} {
		bb := map[string]any{"flag": off, "plain": false}
		if got := render(tpl, bb); got != want {
			t.Logf("control %s: got %q, want %q", tpl, got, want)
		}
	}
	for _, tpl := range []string{
		"{% if flag %}A{% else %}B{% endif %}",
		"{% unless flag %}B{% else %}A{% endunless %}",
		"{% if pflag %}A{% else %}B{% endif %}",
		"{% if cfg.Enabled %}A{% else %}B{% endif %}",
		"{% if flag %}A{% elsif true %}B{% endif %}",
		"{% if flag and true %}A{% else %}B{% endif %}",
		"{% if flag or false %}A{% else %}B{% endif %}",
		"{% for f in flags %}{% if f %}A{% else %}B{% endif %}{% endfor %}",
	} {
		if got := render(tpl, b); got != "B" {
			t.Errorf("%s with a false of a named bool type: got %q, want %q (false is falsy whatever its Go type name)", tpl, got, "B")
		}
	}
}

package liquid

import (
	"testing"
)

// Property C05: "Everything in a template outside tags and objects reaches the output
// unchanged and in order"; the trim writer may only alter the text next to a trim
// marker.
//
// A hyphen in "-}}" / "-%}" strips the whitespace at the start of the text token that
// immediately follows the tag, and "{{-" / "{%-" strips the end of the text token that
// immediately precedes it. render.trimWriter implements this with a flag / a held-back
// buffer on the output stream, and a node that writes nothing (assign, comment, an
// object whose value is nil, the end of a block, the end of a loop body) neither clears
// the flag nor flushes the buffer. The trim therefore reaches THROUGH such nodes to
// literal text that is not next to the hyphen at all:
//
//	{{ 1 -}}{% assign x = 1 %}  text     renders "1text"   (want "1  text")
//	text  {% assign x = 1 %}{{- 1 }}     renders "text1"   (want "text  1")
//
// The previous fix to trimWriter.Write ("a later left hyphen then trimmed the whitespace
// at the end of that chunk although it is not next to it") closed one instance of this;
// these are the remaining ones. Correct behaviour (and Liquid's): text that is separated
// from the hyphen by another tag or object passes through unchanged.
func TestHuntDemo(t *testing.T) {
	engine := NewEngine()
	bindings := Bindings{"n": nil}
	cases := []struct{ src, want string }{
		// right trim survives a tag that writes nothing
		{`{{ 1 -}}{% assign x = 1 %}  text`, "1  text"},
		{`{{ 1 -}}{% comment %}c{% endcomment %}  text`, "1  text"},
		// right trim set inside a block / loop body leaks out past the end tag
		{`{% if true -%}{% endif %}  y`, "  y"},
		{`{% for i in (1..2) %}{{ i -}}{% endfor %} z`, "12 z"},
		// left trim reaches back through a tag / object that writes nothing
		{`text  {% assign x = 1 %}{{- 1 }}`, "text  1"},
		{`text  {% comment %}c{% endcomment %}{{- 1 }}`, "text  1"},
		{`text  {{ n }}{{- 1 }}`, "text  1"},
	}
	for _, c := range cases {
		func() {
			defer func() {
				if r := recover(); r != nil {
					t.Errorf("%q: panic: %v", c.src, r)
				}
			}()
			got, err := engine.ParseAndRenderString(c.src, bindings)
			if err != nil {
				t.Errorf("%q: unexpected error: %v", c.src, err)
				return
			}
			if got != c.want {
				t.Errorf("%q: rendered %q, want %q (literal text not adjacent to the trim marker was altered)", c.src, got, c.want)
			}
		}()
	}
}

package liquid

import (
	"fmt"
	"testing"
)

type huntKey string // a named string type, e.g. what a typed configuration map uses for its keys

// C01: for every binding environment built from plain data - including "maps with string
// and non-string keys", typed maps and named types - rendering with the standard filters
// returns output or a SourceError and never panics.
//
// `sort: "k"` sorts an array of maps by the entry under key "k"
// (values.SortByProperty -> sortableByProperty.Less). Less looks the key up with
// rt.MapIndex(reflect.ValueOf(s.key)) after checking only that the map's key *kind* is
// String. For a map whose key type is a named string type (map[huntKey]int) the lookup
// key has type string, which is not assignable to huntKey, so reflect panics with
// "reflect.Value.MapIndex: value of type string is not assignable to type liquid.huntKey".
// The panic value is a plain string, so expression.Evaluate re-raises it and it escapes
// ParseAndRender.
//
// Correct behaviour: no panic. The rest of the library already finds "k" in such a map
// (mapValue.PropertyValue converts the index to the key type: `{{ m.k }}` and `map: "k"`
// work), so the natural result is the array sorted by that entry: "1 2".
func TestHuntDemo(t *testing.T) {
	bindings := Bindings{
		"a": []map[huntKey]int{{"k": 2}, {"k": 1}},
	}
	src := `{{ a | sort: "k" | map: "k" | join: " " }}`
	defer func() {
		if r := recover(); r != nil {
			msg := fmt.Sprint(r)
			if len(msg) > 200 {
				msg = msg[:200] + "..."
			}
			t.Errorf("ParseAndRenderString(%q) with a = []map[huntKey]int{{k:2},{k:1}} panicked: %s", src, msg)
		}
	}()
	out, err := NewEngine().ParseAndRenderString(src, bindings)
	if err != nil {
		// an error would satisfy C01, but nothing here is ill-typed: map and dot access accept this map
		t.Logf("render returned an error: %v", err)
		return
	}
	if out != "1 2" && out != "2 1" {
		t.Errorf("ParseAndRenderString(%q) = %q; want the two elements (sorted by k: \"1 2\")", src, out)
	}
}

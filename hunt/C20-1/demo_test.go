package liquid

import (
	"bytes"
	"strings"
	"testing"
)

// huntSentinelWriter accepts every Write except the k-th (0-based), which it refuses
// with the given error without accepting any byte.
type huntSentinelWriter struct {
	k, calls int
	err      error
	accepted bytes.Buffer
}

func (w *huntSentinelWriter) Write(b []byte) (int, error) {
	i := w.calls
	w.calls++
	if i == w.k {
		return 0, w.err
	}
	w.accepted.Write(b)
	return len(b), nil
}

// TestHuntDemo: property C20 says that when the writer given to FRender fails, the render
// stops and FRender returns a non-nil SourceError carrying that failure; it never reports
// success, and what the writer accepted is a prefix of the fault-free output.  The property
// does not restrict WHICH error value the writer returns.
//
// The for/tablerow renderer recognises {% break %} / {% continue %} by comparing
// err.Cause() of whatever its body returned with two package-level sentinel errors.  Those
// sentinels leave the library: rendering "{% break %}" outside a loop hands the caller a
// SourceError whose Cause() is the sentinel.  A writer that fails with that error (for
// instance an io.PipeWriter whose reading side did pr.CloseWithError(err) with the error of
// a downstream liquid render) has its failure mistaken for a {% break %}: the loop ends
// quietly, the refused bytes are dropped, rendering goes on, and FRender returns nil.
//
// Correct behaviour: the failed Write is an I/O failure whatever its value; FRender must
// stop and return a non-nil SourceError, and the accepted bytes must be a prefix of "1,2,3,done".
func TestHuntDemo(t *testing.T) {
	defer func() {
		if r := recover(); r != nil {
			t.Errorf("panic escaped: %v", r)
		}
	}()
	eng := NewEngine()

	// An ordinary error value that the public API hands out.
	_, brk := eng.ParseAndRenderString("{% break %}", nil)
	if brk == nil {
		t.Fatal("setup: expected an error from a break outside a loop")
	}

	tpl, perr := eng.ParseString("{% for i in (1..3) %}{{ i }},{% endfor %}done")
	if perr != nil {
		t.Fatal(perr)
	}
	want := "1,2,3,done"
	for _, werr := range []error{brk, brk.Cause()} {
		// fault-free render makes 7 Write calls: "1" "," "2" "," "3" "," "done"
		for k := 0; k < 6; k++ {
			w := &huntSentinelWriter{k: k, err: werr}
			err := tpl.FRender(w, nil)
			if err == nil {
				t.Errorf("writer refused Write #%d with %q, but FRender reported success; writer accepted %q (fault-free output %q)",
					k, werr, w.accepted.String(), want)
			}
			if !strings.HasPrefix(want, w.accepted.String()) {
				t.Errorf("writer refused Write #%d: accepted bytes %q are not a prefix of the fault-free output %q",
					k, w.accepted.String(), want)
			}
		}
	}
}

package liquid

import (
	"testing"
)

// C12 rests on assign being a statement of its own: {% assign v = e %} is parsed by
// expressions.ParseStatement, which prepends the in-band selector "%assign " to the tag
// arguments (expressions/statements.go). The lexer recognises that selector (and "%loop ",
// "{%cycle ", "{%when ") in ANY source it is given, so the same text typed into an object or
// into an if/unless/case/include argument is parsed as an assignment/loop statement too:
// expressions.Parse succeeds, but the statement rules leave parseValue.val nil, and the
// resulting expression{nil} dereferences a nil function when it is evaluated.
//
// So {{ %assign x = 1 }} is an accepted template that neither assigns x nor reports an
// error: rendering it panics out of Template.Render (nil pointer dereference, re-thrown by
// expression.Evaluate as a non-liquid error).
//
// Correct behaviour: the template is rejected with a syntax error at parse time (only the
// assign tag may bind a variable; an object is an expression), or at the very least Render
// returns an error. A panic escaping the public API, for a template the parser accepted, is
// never acceptable.
func TestHuntDemo(t *testing.T) {
	e := NewEngine()
	for _, src := range []string{
		`{{ %assign x = 1 }}[{{ x }}]`,
		`{% if %assign x = 1 %}y{% endif %}[{{ x }}]`,
		`{{ %loop i in a }}`,
	} {
		func() {
			defer func() {
				if r := recover(); r != nil {
					t.Errorf("%s\n  was accepted by the parser and rendering panicked: %.120v", src, r)
				}
			}()
			tpl, err := e.ParseString(src)
			if err != nil {
				return // correct: a syntax error
			}
			out, rerr := tpl.RenderString(Bindings{"a": []int{1, 2}})
			if rerr == nil {
				t.Errorf("%s\n  was accepted and rendered %q; want a syntax error", src, out)
			}
		}()
	}
}

package liquid

import (
	"fmt"
	"testing"
)

type huntKeyString string

// Property C09: "contains tests substring, array membership by ==, or map key".
//
// mapValue.Contains (values/value.go) answers true only when the operand's Go type is identical
// to the map's key type. A map[interface{}]interface{} (what yaml.v2 unmarshals into) therefore
// "contains" none of its keys, because the key type is interface{} and the operand's type is
// string; a map[int64]string does not contain 1 (an int), and a map with a named string key type
// does not contain "a". In all these cases m[key] finds the entry (mapValue.IndexValue converts
// the index with mapKey), so `m contains k` is false while `m[k]` renders the value.
//
// Correct behaviour: `m contains k` is true whenever k is a key of m, i.e. whenever m[k] finds an
// entry; Contains should convert the operand with the same mapKey helper that IndexValue uses.
func TestHuntDemo(t *testing.T) {
	render := func(src string, b map[string]any) (out string) {
		defer func() {
			if r := recover(); r != nil {
				out = fmt.Sprintf("PANIC: %v", r)
			}
		}()
		out, err := NewEngine().ParseAndRenderString(src, b)
		if err != nil {
			return "ERROR: " + err.Error()
		}
		return out
	}
	b := map[string]any{
		"many":   map[any]any{"a": "x", 2: "y"},
		"mint64": map[int64]string{1: "x"},
		"mnamed": map[huntKeyString]string{"a": "x"},
	}
	for _, c := range []struct{ m, k string }{
		{"many", `"a"`},
		{"many", `2`},
		{"mint64", `1`},
		{"mnamed", `"a"`},
	} {
		idx := render(fmt.Sprintf(`{{ %s[%s] }}`, c.m, c.k), b)
		got := render(fmt.Sprintf(`{%% if %s contains %s %%}T{%% else %%}F{%% endif %%}`, c.m, c.k), b)
		if got != "T" {
			t.Errorf("%s contains %s: got %q, want \"T\": %s is a key of the map (%s[%s] renders %q)", c.m, c.k, got, c.k, c.m, c.k, idx)
		}
	}
}

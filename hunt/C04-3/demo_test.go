package liquid

import (
	"sync"
	"testing"
)

type huntLabel string // a named string type, as produced by typed configuration code

// values.SortedMapKeys promises an order "that depends only on the keys", and {% for %} over a
// map and the array filters (first, last, join, ...) rely on it to be repeatable. mapKeyLess
// compares two keys of an interface-keyed map by Kind and then by value only, so "a" and
// huntLabel("a") (both Kind String, distinct map keys) compare as equal; sort.SliceStable then
// keeps them in the order reflect's MapKeys returned them, which Go randomises per call.
// The same template rendered on the same shared bindings therefore returns different text from
// one render to the next, and goroutines rendering it concurrently disagree with the sequential
// result and with each other.
//
// Correct behaviour: every render returns the same text (ties between keys of equal kind and
// value are broken by something that depends only on the keys, e.g. the type's name). C04
// requires that every concurrent render returns exactly what it returns when run alone.
func TestHuntDemo(t *testing.T) {
	defer func() {
		if r := recover(); r != nil {
			t.Errorf("panic: %v", r)
		}
	}()
	e := NewEngine()
	tpl, err := e.ParseString(`{% for kv in m %}{{ kv[1] }}{% endfor %}|{{ m | first }}|{{ m | join: "," }}`)
	if err != nil {
		t.Fatal(err)
	}
	bindings := Bindings{"m": map[any]any{"a": 1, huntLabel("a"): 2, "b": 3}}
	alone, err := tpl.RenderString(bindings)
	if err != nil {
		t.Fatal(err)
	}

	const goroutines, rounds = 16, 50
	var (
		mu   sync.Mutex
		seen = map[string]int{}
		wg   sync.WaitGroup
	)
	for g := 0; g < goroutines; g++ {
		wg.Add(1)
		go func() {
			defer wg.Done()
			for i := 0; i < rounds; i++ {
				out, err := tpl.RenderString(bindings)
				if err != nil {
					out = "error: " + err.Error()
				}
				mu.Lock()
				seen[out]++
				mu.Unlock()
			}
		}()
	}
	wg.Wait()
	if len(seen) != 1 || seen[alone] != goroutines*rounds {
		t.Errorf("the render alone returned %q, but %d concurrent renders of the same template on the same bindings returned %d different texts: %v", alone, goroutines*rounds, len(seen), seen)
	}
}

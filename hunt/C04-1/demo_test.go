package liquid

import (
	"fmt"
	"os"
	"os/exec"
	"runtime"
	"strings"
	"sync"
	"testing"
)

// Engine.ParseTemplateAndCache is a parse method, and it writes the engine's include cache
// (engine.go: e.cfg.Cache[path] = source), a plain map that every render of {% include %}
// reads (render/context.go: RenderFile) and that every other ParseTemplateAndCache writes,
// with no synchronisation. Goroutines that parse-and-cache on a configured engine while
// others render therefore race on the map; the Go runtime notices it even without -race and
// kills the whole process with "fatal error: concurrent map read and map write" (or
// "concurrent map writes"), which no recover can catch. Under -race the same run reports a
// DATA RACE between mapassign in ParseTemplateAndCache and mapaccess in RenderFile.
//
// Correct behaviour: the cache is guarded (a mutex or sync.Map), so all goroutines finish and
// each render returns "inc:5", exactly what it returns alone. C04 requires that any number of
// goroutines may concurrently parse with, and render on, one configured engine with no data race.
//
// Because the failure is an unrecoverable runtime fatal error, the racing code runs in a child
// process (this test binary re-executed); the parent reports what the child died of.
func TestHuntDemo(t *testing.T) {
	if os.Getenv("HUNT_C04_CHILD") == "1" {
		huntC04Child(t)
		return
	}
	defer func() {
		if r := recover(); r != nil {
			t.Errorf("panic: %v", r)
		}
	}()
	for attempt := 1; attempt <= 3; attempt++ {
		cmd := exec.Command(os.Args[0], "-test.run=^TestHuntDemo$", "-test.count=1")
		cmd.Env = append(os.Environ(), "HUNT_C04_CHILD=1")
		out, err := cmd.CombinedOutput()
		if err == nil {
			continue // this schedule happened not to collide; try again
		}
		text := string(out)
		first := text
		if i := strings.Index(text, "fatal error:"); i >= 0 {
			first = text[i:]
		} else if i := strings.Index(text, "DATA RACE"); i >= 0 {
			first = text[i:]
		}
		if len(first) > 1200 {
			first = first[:1200] + "\n..."
		}
		t.Errorf("goroutines calling ParseTemplateAndCache and rendering {%% include %%} on one configured engine crashed the process (attempt %d, %v):\n%s", attempt, err, first)
		return
	}
}

func huntC04Child(t *testing.T) {
	if runtime.GOMAXPROCS(0) < 4 {
		runtime.GOMAXPROCS(4)
	}
	e := NewEngine()
	if _, err := e.ParseTemplateAndCache([]byte("inc:{{ n }}"), "inc.html", 1); err != nil {
		t.Fatal(err)
	}
	tpl, err := e.ParseString(`{% include "inc.html" %}`)
	if err != nil {
		t.Fatal(err)
	}
	bindings := Bindings{"n": 5}
	alone, err := tpl.RenderString(bindings)
	if err != nil || alone != "inc:5" {
		t.Fatalf("sequential render = %q, %v", alone, err)
	}
	var wg sync.WaitGroup
	for g := 0; g < 8; g++ {
		wg.Add(1)
		go func(g int) {
			defer wg.Done()
			for it := 0; it < 5000; it++ {
				if g%2 == 0 {
					// parse (and cache) further partials, as a site builder does
					path := fmt.Sprintf("partial_%d_%d.html", g, it%64)
					if _, err := e.ParseTemplateAndCache([]byte("p{{ n }}"), path, 1); err != nil {
						t.Errorf("parse: %v", err)
						return
					}
				} else {
					out, err := tpl.RenderString(bindings)
					if err != nil || out != alone {
						t.Errorf("concurrent render = %q, %v; alone it is %q", out, err, alone)
						return
					}
				}
			}
		}(g)
	}
	wg.Wait()
}

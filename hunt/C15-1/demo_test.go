package liquid

import "testing"

// huntKey is a named string type, as a caller's typed map may well use for its keys.
type huntKey string

// `sort: "k"` applied to an array of maps whose key type is a named string type
// (map[huntKey]any) panics inside values.sortableByProperty.Less:
//
//	reflect.Value.MapIndex: value of type string is not assignable to type liquid.huntKey
//
// and the panic escapes ParseAndRenderString (it is a runtime error, which
// expression.Evaluate re-panics).
//
// Correct behaviour: the array is sorted by the named key exactly as an array of
// map[string]any is ("1,2"), and the input still renders "2,1" afterwards. C15 says
// sort orders "by the named key when given" and that the filters accept the other Go
// representations of an array of maps exactly as they accept generic ones; `map: "k"`
// on the same array already finds the key (mapValue.PropertyValue converts the index
// to the map's key type), so sort and map disagree about per-element property lookup.
func TestHuntDemo(t *testing.T) {
	bindings := map[string]any{
		"a": []any{
			map[huntKey]any{"k": 2},
			map[huntKey]any{"k": 1},
		},
	}
	var out string
	var err error
	func() {
		defer func() {
			if r := recover(); r != nil {
				t.Errorf("sort: 'k' on an array of map[huntKey]any panicked: %v", r)
			}
		}()
		out, err = NewEngine().ParseAndRenderString(
			`{{ a | map: 'k' | join: ',' }}|{{ a | sort: 'k' | map: 'k' | join: ',' }}|{{ a | map: 'k' | join: ',' }}`, bindings)
	}()
	if t.Failed() {
		return
	}
	if err != nil {
		t.Fatalf("unexpected error: %v", err)
	}
	if want := "2,1|1,2|2,1"; out != want {
		t.Errorf("got %q, want %q", out, want)
	}
}

package liquid

import (
	"testing"
	"time"
)

// Property C02: the output is a function of the template text and the binding values only,
// never of Go map iteration order.
//
// A map[any]any may hold keys of different named types with the same kind and the same
// underlying value: time.January and time.Monday are distinct keys (both have kind Int and
// the value 1). values.SortedMapKeys/mapKeyLess orders keys by kind and then by a.Int() only,
// so such keys compare as equal, and the stable sort leaves them in the random order that
// reflect.Value.MapKeys returned. `{% for %}`, `{% tablerow %}` and the array filters then
// visit the entries in a different order from one render to the next.
//
// Correct behaviour: every render of the same template with the same bindings yields the
// same bytes, so ties between distinct keys must be broken by something that depends on the
// keys alone (for example the type's name).
func TestHuntDemo(t *testing.T) {
	mk := func() map[string]any {
		m := map[any]any{}
		for i := 1; i <= 6; i++ {
			m[time.Month(i)] = "m" + string(rune('0'+i))
			m[time.Weekday(i)] = "w" + string(rune('0'+i))
		}
		return map[string]any{"m": m}
	}
	const src = `{% for kv in m %}{{ kv[1] }} {% endfor %}|{{ m | first }}`
	seen := map[string]int{}
	for i := 0; i < 200; i++ {
		func() {
			defer func() {
				if r := recover(); r != nil {
					t.Errorf("panic: %v", r)
				}
			}()
			out, err := NewEngine().ParseAndRenderString(src, mk())
			if err != nil {
				seen["error: "+err.Error()]++
				return
			}
			seen[out]++
		}()
	}
	if len(seen) != 1 {
		t.Errorf("200 renders of one template with equal bindings gave %d different outputs, want 1:", len(seen))
		n := 0
		for out, c := range seen {
			if n++; n > 5 {
				break
			}
			t.Errorf("  %3d x %q", c, out)
		}
	}
}

package liquid

import (
	"strings"
	"testing"

	"github.com/osteele/liquid/parser"
)

// Property C05: "the body of a raw block is emitted exactly as written whatever
// tag-like text it contains, and the body of a comment block contributes nothing and
// is never evaluated", for all bodies over an alphabet that contains the delimiter
// characters.
//
// parser.Scan tokenises the whole source with one regular expression and knows nothing
// about raw/comment. When a raw or comment body contains a tag opener that is not
// closed inside the body ("{% a " followed by the end tag, or "{{ " when a "}}" occurs
// later in the template), the tag/object alternative of the regexp runs on through
// "{% endraw %}" / "{% endcomment %}" to the next "%}" / "}}", so the end tag becomes
// part of the arguments of a bogus token, the block is reported as unterminated, and a
// legal template is rejected. (If another end tag follows later, text that lies outside
// the block is silently swallowed into it.)
//
// Correct behaviour (and what Liquid does): once {% raw %} / {% comment %} has been
// seen, everything up to the first matching end tag is body; "{% raw %}{% a {% endraw %}"
// renders "{% a ", and "a{% comment %}{% a {% endcomment %}b" renders "ab".
func TestHuntDemo(t *testing.T) {
	engine := NewEngine()
	cases := []struct{ src, want string }{
		{"{% raw %}{% a {% endraw %}", "{% a "},
		{"{% raw %}{%a\n{% endraw %}", "{%a\n"},
		{"{% raw %}use {{ to open an object{% endraw %} and }} to close it", "use {{ to open an object and }} to close it"},
		{"a{% comment %}{% a {% endcomment %}b", "ab"},
		{"a{% comment %} {{ opens an object {% endcomment %}b }}", "ab }}"},
		// text after the comment must not be swallowed into it
		{"a{% comment %}{% x {% endcomment %}VISIBLE{% comment %}{% endcomment %}b", "aVISIBLEb"},
	}
	for _, c := range cases {
		func() {
			defer func() {
				if r := recover(); r != nil {
					t.Errorf("%q: panic: %v", c.src, r)
				}
			}()
			// the tokens must in any case partition the input
			var sb strings.Builder
			for _, tok := range parser.Scan(c.src, parser.SourceLoc{LineNo: 1}, nil) {
				sb.WriteString(tok.Source)
			}
			if sb.String() != c.src {
				t.Errorf("%q: token sources concatenate to %q", c.src, sb.String())
			}
			got, err := engine.ParseAndRenderString(c.src, nil)
			if err != nil {
				t.Errorf("%q: rejected with %v; want it to render %q (the body of a raw/comment block may contain any tag-like text)", c.src, err, c.want)
				return
			}
			if got != c.want {
				t.Errorf("%q: rendered %q, want %q", c.src, got, c.want)
			}
		}()
	}
}

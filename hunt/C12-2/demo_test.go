package liquid

import (
	"testing"
)

// C12: "A variable set by assign or capture is visible to everything rendered afterwards in
// the same render ... and holds ... exactly the text its captured body rendered".
//
// captureTagCompiler takes the raw tag arguments as the variable name ("TODO verify
// syntax"). Therefore
//   {% capture 'x' %}...{% endcapture %}   binds a variable literally called 'x' (with quotes),
//   {% capture x y %}...                   binds a variable called "x y",
//   {% capture %}...                       binds a variable called "",
// none of which any expression can ever read: the template is accepted, the body's text is
// swallowed (it is not output either) and nothing rendered afterwards can see it.
// Liquid takes the first variable-like word of the markup as the name ({% capture 'x' %}
// and {% capture "x" %} are the documented, widely used spellings of {% capture x %}) and
// rejects {% capture %} with a syntax error; assign, in this library, already rejects a
// malformed target at parse time.
//
// Correct behaviour: each template below either fails to parse, or binds x so that
// [{{ x }}] renders [body]. Silently rendering [] is the defect.
func TestHuntDemo(t *testing.T) {
	defer func() {
		if r := recover(); r != nil {
			t.Errorf("panic: %v", r)
		}
	}()
	e := NewEngine()
	for _, src := range []string{
		`{% capture 'x' %}body{% endcapture %}[{{ x }}]`,
		`{% capture "x" %}body{% endcapture %}[{{ x }}]`,
		`{% capture x y %}body{% endcapture %}[{{ x }}]`,
		`{% capture %}body{% endcapture %}[{{ x }}]`,
	} {
		tpl, err := e.ParseString(src)
		if err != nil {
			continue // rejecting the template is acceptable
		}
		got, err := tpl.RenderString(Bindings{})
		if err != nil {
			continue
		}
		if got != "[body]" {
			t.Errorf("%s\n  was accepted and rendered %q: the captured text is bound to a name no expression can read (want a syntax error, or %q)", src, got, "[body]")
		}
	}
}

package liquid

import "testing"

// C06: every clause tag must appear directly inside a block that admits it, no end or
// clause tag may stand alone, and each piece of content is rendered under exactly the
// clause that encloses it in the source.
//
// The scanner only recognises a tag when its name is followed by white space or by the
// closing delimiter (`(\w+)(?:\s+(args))?`). A tag whose name is followed directly by
// another character - {% when"b" %}, {% else"" %}, {% else- %}, {% endif. %} - does not
// match, and instead of being reported it silently becomes literal TEXT (scanner.go carries
// the TODO "error on unterminated {{ and {%"). Shopify Liquid scans `(\w+)\s*(.*?)` and
// sees a `when` tag with the argument "b".
//
// Consequences: a clause is lost and its content is rendered under the preceding clause
// together with the tag's own source; a stray end tag written this way is accepted and
// printed. Either reading of the input is acceptable to this test - the tag is recognised
// (Shopify) or the template is rejected - but not silently printing the tag.
func TestHuntDemo(t *testing.T) {
	defer func() {
		if r := recover(); r != nil {
			t.Errorf("panic: %v", r)
		}
	}()
	e := NewEngine()

	src := `{% case x %}{% when "a" %}A{% when"b" %}B{% endcase %}`
	out, err := e.ParseAndRenderString(src, map[string]any{"x": "a"})
	if err == nil && out != "A" {
		t.Errorf("%s with x=a: rendered %q; B stands under the clause {%% when\"b\" %%} and must not be rendered under {%% when \"a\" %%} (want \"A\" or a parse error)", src, out)
	}

	src = `{% if false %}A{% else"" %}B{% endif %}`
	out, err = e.ParseAndRenderString(src, nil)
	if err == nil && out != "B" {
		t.Errorf("%s: rendered %q; B stands under the else clause (want \"B\" or a parse error)", src, out)
	}

	// an end tag that stands alone must be a parse error
	src = `x{% endif. %}y`
	out, err = e.ParseAndRenderString(src, nil)
	if err == nil {
		t.Errorf("%s: accepted and rendered %q; a stray end tag must be rejected", src, out)
	}
}

package liquid

import (
	"fmt"
	"testing"
)

// C06: a template is accepted exactly when every block tag - raw included - is closed by
// its own end tag, and for an accepted template each piece of content is rendered under
// exactly the blocks that enclose it. The body of {% raw %} is verbatim text up to the
// next {% endraw %}: that is the whole purpose of the tag, and Shopify Liquid's own suite
// has these cases (raw_tag_test.rb test_open_tag_in_raw:
// "{% raw %} Foobar {% invalid {% endraw %}" renders " Foobar {% invalid ").
//
// The scanner, however, tokenizes the raw body with the ordinary object/tag expressions,
// so an unbalanced "{{" or "{%" inside the body makes one token that runs through the
// {% endraw %} up to the next "}}" or "%}". The end tag is then never seen: a template
// whose raw block is properly closed is rejected ("unterminated raw block"), or - when a
// second raw block follows - accepted with text from outside the block rendered as raw
// content, the end tag included.
func TestHuntDemo(t *testing.T) {
	cases := []struct{ src, want string }{
		// rejected today: unterminated "raw" block
		{`{% raw %} Foobar {% invalid {% endraw %}`, ` Foobar {% invalid `},
		// rejected today, only because an object follows somewhere later in the document
		{`{% raw %}{{ opens{% endraw %} and {{ x }}`, `{{ opens and 1`},
		// accepted today, but renders `{{{% endraw %} a {% raw %}}}`
		{`{% raw %}{{{% endraw %} a {% raw %}}}{% endraw %}`, `{{ a }}`},
	}
	for _, c := range cases {
		func() {
			defer func() {
				if r := recover(); r != nil {
					t.Errorf("%q: panic: %v", c.src, r)
				}
			}()
			out, err := NewEngine().ParseAndRenderString(c.src, map[string]any{"x": 1})
			if err != nil {
				t.Errorf("%q: the raw block is closed by its own {%% endraw %%}, yet the template is rejected: %v", c.src, err)
				return
			}
			if out != c.want {
				t.Errorf("%q: rendered %s, want %s", c.src, fmt.Sprintf("%q", out), fmt.Sprintf("%q", c.want))
			}
		}()
	}
}

package liquid

import (
	"testing"
)

// Property C02: rendering a given template with given bindings on a given engine
// configuration always yields the same bytes, or the same error - never depending on Go map
// iteration order.
//
// values.Convert, case reflect.Map, walks the source map with rv.MapKeys() (random order)
// and returns on the first entry that cannot be converted, naming that entry in the error.
// When a filter declares a typed map parameter (here map[string]int) and the binding has
// more than one entry that cannot be converted, the error text names a different entry from
// one render to the next. (For the same reason, when two source keys collapse to one target
// key - 1 and "1" to the string "1" - the surviving value is random.)
//
// Correct behaviour: the same error every time, e.g. the one for the first bad entry in the
// sorted key order that SortedMapKeys already provides for map->slice conversion.
func TestHuntDemo(t *testing.T) {
	mk := func() map[string]any {
		return map[string]any{"m": map[string]string{
			"a": "x1", "b": "x2", "c": "x3", "d": "x4", "e": "x5", "f": "x6", "g": "x7", "h": "x8",
		}}
	}
	seen := map[string]int{}
	for i := 0; i < 200; i++ {
		func() {
			defer func() {
				if r := recover(); r != nil {
					t.Errorf("panic: %v", r)
				}
			}()
			e := NewEngine()
			e.RegisterFilter("total", func(m map[string]int) int {
				s := 0
				for _, v := range m {
					s += v
				}
				return s
			})
			out, err := e.ParseAndRenderString(`{{ m | total }}`, mk())
			if err != nil {
				seen["error: "+err.Error()]++
				return
			}
			seen["output: "+out]++
		}()
	}
	if len(seen) != 1 {
		t.Errorf("200 renders of one template with equal bindings gave %d different results, want 1:", len(seen))
		n := 0
		for out, c := range seen {
			if n++; n > 5 {
				break
			}
			t.Errorf("  %3d x %s", c, out)
		}
	}
}

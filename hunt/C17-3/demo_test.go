package liquid

import (
	"testing"
)

// C17: "plus, minus, times, ... compute the corresponding arithmetic on integers
// and floats ...; whole-number results print without a fractional part".
//
// The arithmetic filters return float64 and render.writeObject prints it with
// fmt.Sprint, i.e. %v = shortest %g, which switches to exponent notation as soon
// as the decimal exponent is 6 or more. So every whole-number result of
// magnitude 1000000 or more (seven or more digits) is printed in scientific
// notation, usually with a fractional mantissa:
//
//	{{ 1000000 | plus: 1 }}  -> 1.000001e+06   (want 1000001)
//	{{ 500000 | times: 4 }}  -> 2e+06          (want 2000000)
//	{{ 1000000 | abs }}      -> 1e+06          (want 1000000)
//
// whereas {{ 1000000 }} itself and {{ 1000000 | ceil }} print 1000000.
// Correct behaviour: a whole-number result is printed as its plain decimal
// digits, with no fractional part and no exponent (Liquid prints 1000001).
func TestHuntDemo(t *testing.T) {
	e := NewEngine()
	cases := []struct{ src, want string }{
		{`{{ 1000000 | plus: 1 }}`, "1000001"},
		{`{{ 1000000 | minus: 12 }}`, "999988"}, // control: below the threshold this works
		{`{{ -12 | minus: 1000000 }}`, "-1000012"},
		{`{{ 500000 | times: 4 }}`, "2000000"},
		{`{{ 1000000 | abs }}`, "1000000"},
		{`{{ 2147483647 | plus: 1 }}`, "2147483648"},
		{`{{ 123456789 | times: 10 }}`, "1234567890"},
		{`{{ 30000000 | divided_by: 2.0 }}`, "15000000"},
		{`{{ 21000000 | modulo: 100000000 }}`, "21000000"},
		{`{{ 1234567.4 | round }}`, "1234567"},
		{`{{ "1000000" | plus: 0 }}`, "1000000"},
		{`{{ 9007199254740991 | plus: 1 }}`, "9007199254740992"},
	}
	for _, c := range cases {
		func() {
			defer func() {
				if r := recover(); r != nil {
					t.Errorf("%s: panic: %v", c.src, r)
				}
			}()
			out, err := e.ParseAndRenderString(c.src, nil)
			if err != nil {
				t.Errorf("%s: unexpected error: %v", c.src, err)
				return
			}
			if out != c.want {
				t.Errorf("%s: rendered %q, want %q (a whole-number result must print without fractional part or exponent)", c.src, out, c.want)
			}
		}()
	}
}

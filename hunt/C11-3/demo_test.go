package liquid

import (
	"testing"
)

// Property C11: offset: o and limit: n select the subsequence (skip o, then take n), and a
// range (a..b) yields the integers from a to b. The bindings are Go values, and an integer
// there is as often an int64, int32, uint or uint8 (database rows, struct fields, protobuf)
// as an int. applyLoopModifiers and makeLoopDecorator test the evaluated modifier with
// val.(int), so any other integer type is refused with "loop offset must be an integer" -
// although it is one - and the range endpoints go through Value.Int(), which has the same
// assertion ("can't convert int64(3) to type int"). Comparison ({% if n == 2 %}) and filter
// arguments (plus, slice, truncate) treat the same values as the integers they are.
//
// Correct behaviour: the loops below select the same items as with the int 2, i.e. "34",
// "12", "12" and a table with two columns.
func TestHuntDemo(t *testing.T) {
	defer func() {
		if r := recover(); r != nil {
			t.Errorf("panic: %v", r)
		}
	}()
	e := NewEngine()
	for _, tc := range []struct {
		src, want string
		n         any
	}{
		{`{% for i in a offset:n %}{{ i }}{% endfor %}`, "34", int64(2)},
		{`{% for i in a limit:n %}{{ i }}{% endfor %}`, "12", uint(2)},
		{`{% for i in (1..n) %}{{ i }}{% endfor %}`, "12", int32(2)},
		{`{% tablerow i in a cols:n %}{{ i }}{% endtablerow %}`,
			`<tr class="row1"><td class="col1">1</td><td class="col2">2</td></tr><tr class="row2"><td class="col1">3</td><td class="col2">4</td></tr>`, int64(2)},
	} {
		// control: the same template with an int
		out, err := e.ParseAndRenderString(tc.src, map[string]any{"a": []int{1, 2, 3, 4}, "n": 2})
		if err != nil || out != tc.want {
			t.Fatalf("control failed for %s: %q, %v", tc.src, out, err)
		}
		out, err = e.ParseAndRenderString(tc.src, map[string]any{"a": []int{1, 2, 3, 4}, "n": tc.n})
		if err != nil {
			t.Errorf("%s with n = %T(%v): unexpected error: %v", tc.src, tc.n, tc.n, err)
			continue
		}
		if out != tc.want {
			t.Errorf("%s with n = %T(%v): got %q, want %q", tc.src, tc.n, tc.n, out, tc.want)
		}
	}
}

package liquid

import (
	"os"
	"path/filepath"
	"testing"
)

// Property C07: the error's Path is the path the failing template was parsed with and its
// LineNumber is the line on which the innermost failing tag or object begins, however deeply
// it is nested.
//
// rendererContext.RenderFile (behind {% include %}) compiles the included file with the
// SourceLoc of the include TAG: the includer's pathname and the include tag's line as the
// starting line. A failure inside the included file is therefore reported in the INCLUDER's
// path, at line (line of the include tag + line offset inside the included file) - a line that
// has nothing to do with the failing object and need not even exist in that file. Below,
// main.html has 5 lines and the failing object is on line 3 of inc.html; the error says
// "line 7 ... in <dir>/main.html".
//
// Correct behaviour: the failing object is {{ 1 | fail }} on line 3 of inc.html, so Path() is
// inc.html's path and LineNumber() its line there. (The test also tolerates the include tag's
// own location, main.html line 5, and either 0- or 1-based numbering of the included file; the
// current answer matches none of these.)
func TestHuntDemo(t *testing.T) {
	defer func() {
		if r := recover(); r != nil {
			t.Errorf("panic: %v", r)
		}
	}()
	dir := t.TempDir()
	mainPath := filepath.Join(dir, "main.html")
	incPath := filepath.Join(dir, "inc.html")
	if err := os.WriteFile(incPath, []byte("inc line 1\ninc line 2\n{{ 1 | fail }}\n"), 0o600); err != nil {
		t.Fatal(err)
	}
	mainSrc := "a\nb\nc\nd\n{% include 'inc.html' %}\n" // the include tag is on line 5 (start line 1)

	e := NewEngine()
	e.RegisterFilter("fail", func(v any) (any, error) { return nil, os.ErrInvalid })
	tpl, err := e.ParseTemplateLocation([]byte(mainSrc), mainPath, 1)
	if err != nil {
		t.Fatalf("unexpected parse error: %v", err)
	}
	out, err := tpl.Render(Bindings{})
	if err == nil {
		t.Fatalf("expected a render error, got output %q", out)
	}
	path, line := err.Path(), err.LineNumber()
	okInner := path == incPath && (line == 3 || line == 2)
	okTag := path == mainPath && line == 5
	if !okInner && !okTag {
		t.Errorf("error located at %s line %d; want %s line 3 (the failing object), "+
			"or at least %s line 5 (the include tag); main.html has only 5 lines. error: %v",
			path, line, incPath, mainPath, err)
	}

	// The same for a syntax error in the included file: "unterminated if" on its line 2.
	if err := os.WriteFile(incPath, []byte("inc line 1\n{% if true %}\nnever closed\n"), 0o600); err != nil {
		t.Fatal(err)
	}
	out, err = tpl.Render(Bindings{})
	if err == nil {
		t.Fatalf("expected an error for the malformed include, got output %q", out)
	}
	path, line = err.Path(), err.LineNumber()
	okInner = path == incPath && (line == 2 || line == 1)
	okTag = path == mainPath && line == 5
	if !okInner && !okTag {
		t.Errorf("syntax error of the included file located at %s line %d; want %s line 2, "+
			"or at least %s line 5 (the include tag). error: %v", path, line, incPath, mainPath, err)
	}
}

package liquid

import (
	"testing"
)

// C14: source registered through ParseTemplateAndCache is used by {% include %} when no
// such file exists on disk. ParseTemplateAndCache stores the source under the path string
// exactly as the caller wrote it, but the include tag looks it up under
// filepath.Join(filepath.Dir(includerPath), name), which is always a *cleaned* path. A
// template cached under a path that is not already in cleaned form ("./part.html",
// "dir//part.html", "dir/sub/../part.html") can therefore never be found - even by an
// includer that was parsed with a path written in exactly the same style - and the render
// fails with "no such file or directory" instead of using the registered source.
//
// Correct behaviour: both renders below produce "[cached 1]", because "./zz_hunt_part.html"
// and "zz_hunt_part.html" next to "./zz_hunt_main.html" name the same file, and likewise
// dir+"//part.html" and dir+"/part.html".
func TestHuntDemo(t *testing.T) {
	defer func() {
		if r := recover(); r != nil {
			t.Errorf("panic: %v", r)
		}
	}()
	dir := t.TempDir() // nothing is written to disk: every partial lives only in the cache
	cases := []struct{ cachedAs, includer, name string }{
		{"./zz_hunt_part.html", "./zz_hunt_main.html", "zz_hunt_part.html"},
		{dir + "//part.html", dir + "//main.html", "part.html"},
		{dir + "/sub/../part.html", dir + "/main.html", "part.html"},
	}
	for _, c := range cases {
		e := NewEngine()
		if _, err := e.ParseTemplateAndCache([]byte("[cached {{ x }}]"), c.cachedAs, 1); err != nil {
			t.Fatal(err)
		}
		tpl, err := e.ParseTemplateLocation([]byte(`{% include "`+c.name+`" %}`), c.includer, 1)
		if err != nil {
			t.Fatal(err)
		}
		got, err := tpl.RenderString(Bindings{"x": 1})
		if err != nil {
			t.Errorf("cached as %q, included as %q from %q: render failed: %v (want \"[cached 1]\")", c.cachedAs, c.name, c.includer, err)
			continue
		}
		if got != "[cached 1]" {
			t.Errorf("cached as %q, included as %q from %q: got %q, want \"[cached 1]\"", c.cachedAs, c.name, c.includer, got)
		}
	}
}

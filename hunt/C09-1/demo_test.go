package liquid

import (
	"fmt"
	"testing"

	yaml "gopkg.in/yaml.v2"
)

// Property C09: "equality is reflexive and symmetric", and "a != b is the negation of a == b",
// for all operands. The README documents yaml.MapSlice as a value that "acts as a map".
//
// mapSliceValue (values/mapslicevalue.go) embeds valueEmbed, whose Equal always answers false
// (the real Equal is commented out). So a MapSlice is not equal to itself: `ms == ms` is false
// and `ms != ms` is true. It is also asymmetric: with items = []yaml.MapItem holding the same
// items, `items == ms` is true (arrayValue.Equal compares element-wise) but `ms == items` is false.
//
// Correct behaviour: ms == ms is true, ms != ms is false, and a == b gives the same answer as b == a.
func TestHuntDemo(t *testing.T) {
	render := func(src string, b map[string]any) (out string) {
		defer func() {
			if r := recover(); r != nil {
				out = fmt.Sprintf("PANIC: %v", r)
			}
		}()
		out, err := NewEngine().ParseAndRenderString(src, b)
		if err != nil {
			return "ERROR: " + err.Error()
		}
		return out
	}
	b := map[string]any{
		"ms":    yaml.MapSlice{{Key: "a", Value: 1}},
		"items": []yaml.MapItem{{Key: "a", Value: 1}},
	}
	if got := render(`{% if ms == ms %}T{% else %}F{% endif %}`, b); got != "T" {
		t.Errorf("ms == ms (the same yaml.MapSlice on both sides): got %q, want \"T\" (equality must be reflexive)", got)
	}
	if got := render(`{{ ms != ms }}`, b); got != "false" {
		t.Errorf("ms != ms: got %q, want \"false\"", got)
	}
	ab, ba := render(`{{ items == ms }}`, b), render(`{{ ms == items }}`, b)
	if ab != ba {
		t.Errorf("items == ms is %q but ms == items is %q (equality must be symmetric)", ab, ba)
	}
}

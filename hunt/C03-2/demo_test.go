package liquid

import (
	"fmt"
	"sort"
	"strings"
	"testing"
)

// Property C03: a Template rendered again with the same bindings must give byte-identical
// output; the output must not depend on Go's randomised map iteration order.
//
// When a filter declares a map parameter (here map[string]any, the usual way to write a filter
// for front-matter / YAML data), values.Convert builds the argument from the binding by walking
// reflect.Value.MapKeys() - in random order - and turning every key into the target key type
// (fmt.Sprint for a string key, a numeric conversion otherwise). Distinct source keys that
// collapse onto one target key - 1 and "1" in the map[any]any that yaml.v2 produces, or 1.2 and
// 1.7 for a map[int]any target - overwrite each other, so which value survives changes from one
// render to the next although neither the template nor the bindings changed.
//
// Correct behaviour: the conversion is a function of the bindings alone - either walk the keys in
// sorted order (values.SortedMapKeys, as the slice conversion a few lines below already does) or
// report colliding keys as a conversion error - so that every render gives the same bytes.
func TestHuntDemo(t *testing.T) {
	engine := NewEngine()
	// a deterministic filter: prints the map it receives in sorted key order
	engine.RegisterFilter("show", func(m map[string]any) string {
		keys := make([]string, 0, len(m))
		for k := range m {
			keys = append(keys, k)
		}
		sort.Strings(keys)
		parts := make([]string, 0, len(keys))
		for _, k := range keys {
			parts = append(parts, fmt.Sprintf("%s=%v", k, m[k]))
		}
		return strings.Join(parts, ",")
	})
	engine.RegisterFilter("show_int", func(m map[int]any) string {
		keys := make([]int, 0, len(m))
		for k := range m {
			keys = append(keys, k)
		}
		sort.Ints(keys)
		parts := make([]string, 0, len(keys))
		for _, k := range keys {
			parts = append(parts, fmt.Sprintf("%d=%v", k, m[k]))
		}
		return strings.Join(parts, ",")
	})
	cases := []struct {
		name, tpl string
		b         Bindings
	}{
		{
			"yaml-style map[any]any with the keys 1 and \"1\" handed to a map[string]any filter",
			`{{ page | show }}`,
			Bindings{"page": map[any]any{1: "from int key", "1": "from string key", "title": "t"}},
		},
		{
			"map[float64]any handed to a map[int]any filter",
			`{{ m | show_int }}`,
			Bindings{"m": map[float64]any{1.2: "a", 1.7: "b"}},
		},
	}
	for _, c := range cases {
		tpl, err := engine.ParseString(c.tpl)
		if err != nil {
			t.Fatalf("%s: parse: %v", c.name, err)
		}
		seen := map[string]int{}
		for i := 0; i < 400; i++ {
			out, rerr := func() (out string, err error) {
				defer func() {
					if r := recover(); r != nil {
						err = fmt.Errorf("panic: %v", r)
					}
				}()
				s, e := tpl.RenderString(c.b)
				if e != nil {
					return "", e
				}
				return s, nil
			}()
			if rerr != nil {
				// a conversion error would be acceptable, as long as it is the same every time
				out = "error: " + rerr.Error()
			}
			seen[out]++
		}
		if len(seen) > 1 {
			t.Errorf("%s: template %q rendered 400 times against the same bindings gave %d different outputs: %v",
				c.name, c.tpl, len(seen), seen)
		}
	}
}

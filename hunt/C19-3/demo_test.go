package liquid

import (
	"fmt"
	"testing"
)

// C19: a template written with custom delimiters must render exactly as the
// same template written with the default delimiters renders on a default
// engine - whitespace-control hyphens included.
//
// The tag-right delimiter is "-}" (the other three are the defaults, selected
// by empty strings). "{% else -%}" - a tag without arguments, closed with a
// right trim marker - is then spelled "{% else --}". The default engine renders
// "A|C"; the custom engine must do the same. Instead the scanner lets the
// optional argument group of the tag pattern start at the trim marker: the
// exclusion alternative "-[^}]" consumes the marker together with the "-" that
// begins the delimiter, and the tag runs on to the NEXT "-}" in the source,
// swallowing "B{% endif". The template is then rejected ("unterminated if
// block") although its default spelling is accepted.
func TestHuntDemo(t *testing.T) {
	render := func(e *Engine, src string) (out string) {
		defer func() {
			if r := recover(); r != nil {
				out = fmt.Sprintf("PANIC: %v", r)
			}
		}()
		s, err := e.ParseAndRenderString(src, Bindings{"x": true})
		if err != nil {
			return "ERROR: " + err.Error()
		}
		return s
	}
	def := `{% if x %}A{% else -%} B{% endif %}|{% if x %}C{% endif -%} `
	custom := `{% if x -}A{% else --} B{% endif -}|{% if x -}C{% endif --} `
	want := render(NewEngine(), def)
	got := render(NewEngine().Delims("", "", "", "-}"), custom)
	if got != want {
		t.Errorf("Delims(\"\", \"\", \"\", \"-}\"):\n  default engine, %q -> %q\n  custom engine,  %q -> %q\n  the two must be equal", def, want, custom, got)
	}
}

package liquid

import "testing"

// `sort` on an array that contains nil elements does not sort it: values.Less
// answers false whenever either operand is nil, so a nil compares "equal" to every
// element, the ordering is not transitive, and sort.Sort leaves the other elements
// where they were. [3, nil, 1, nil, 2] | sort comes back as [3, nil, 1, nil, 2].
//
// Correct behaviour: the result is a permutation of the input in ascending order,
// with the nils gathered at one end (Shopify Liquid puts them last; sort-by-key in
// this library puts them first) - either way the non-nil elements, which is what
// join shows because it skips nils, must read 1,2,3. C15: "sort returns a
// permutation of its input in ascending order", for all arrays including
// nil-containing ones.
func TestHuntDemo(t *testing.T) {
	bindings := map[string]any{"a": []any{3, nil, 1, nil, 2}}
	var out string
	var err error
	func() {
		defer func() {
			if r := recover(); r != nil {
				t.Errorf("panic: %v", r)
			}
		}()
		out, err = NewEngine().ParseAndRenderString(
			`{{ a | sort | join: ',' }}|{{ a | sort | size }}|{{ a | sort | compact | join: ',' }}|{{ a | join: ',' }}`, bindings)
	}()
	if t.Failed() {
		return
	}
	if err != nil {
		t.Fatalf("unexpected error: %v", err)
	}
	if want := "1,2,3|5|1,2,3|3,1,2"; out != want {
		t.Errorf("sort of [3,nil,1,nil,2]: got %q, want %q (non-nil elements in ascending order, 5 elements, input unchanged)", out, want)
	}
}

package liquid

import (
	"math"
	"testing"
)

// Property C11: a for loop over a map visits the [key, value] pairs of the map, each once.
// A map[float64]string is a legal binding, and NaN is a legal float64 key. The loop adapter
// (tags/iteration_tags.go:makeIterator) looks every key up again with rv.MapIndex(k); for a NaN
// key that lookup finds nothing (NaN != NaN), MapIndex returns the zero reflect.Value and
// .Interface() on it panics. The panic is not converted into an error: it escapes from
// ParseAndRenderString into the caller.
//
// Correct behaviour: no panic. The pair [NaN, "x"] is visited once, like every other pair
// (reflect's MapRange yields the value of a NaN key), so the output is "1=y;NaN=x;" (or, at the
// very least, an error is returned instead of a panic).
func TestHuntDemo(t *testing.T) {
	defer func() {
		if r := recover(); r != nil {
			t.Errorf("rendering a for loop over a map with a NaN key panicked: %v", r)
		}
	}()
	bindings := map[string]any{
		"m": map[float64]string{1: "y", math.NaN(): "x"},
	}
	out, err := NewEngine().ParseAndRenderString(`{% for p in m %}{{ p[0] }}={{ p[1] }};{% endfor %}`, bindings)
	if err != nil {
		t.Fatalf("unexpected error: %v", err)
	}
	if out != "1=y;NaN=x;" && out != "NaN=x;1=y;" {
		t.Errorf("each pair must be visited once; got %q", out)
	}
}

package liquid

import (
	"testing"
)

type huntIndex int

// C08: "`a[i]` reads an array element with negative indices counting from the end";
// only an out-of-range or NON-NUMERIC index yields nil, and a pipeline must behave
// "exactly as doing the steps one at a time through assign". values.arrayValue.IndexValue
// switches on the Go type of the index and knows only int, float32 and float64: an
// integer of any other Go type (int64, int32, uint, uint8, a named int type...) falls
// into `default: return nilValue`. So the element silently disappears when the index
// is an int64 binding - or, with no unusual binding at all, when it was computed by
// the standard filter divided_by, which returns int64. (Map lookup does convert such
// keys: m[i64] finds the key 1 of a map[int]string, and float indices work.)
//
// Correct behaviour: every index below denotes the number 1 (or -1), so a[i] is the
// same element as a[1] (or a[-1]).
func TestHuntDemo(t *testing.T) {
	defer func() {
		if r := recover(); r != nil {
			t.Errorf("panic: %v", r)
		}
	}()
	engine := NewEngine()
	bindings := map[string]any{
		"a":   []string{"zero", "one", "two"},
		"i":   1,
		"i64": int64(1),
		"i32": int32(-1),
		"u8":  uint8(1),
		"u":   uint(1),
		"ni":  huntIndex(1),
	}
	cases := []struct{ src, want string }{
		{`{{ a[i] }}`, "one"}, // passes: plain int
		{`{% assign k = 2 | divided_by: 2 %}{{ k }}:{{ a[k] }}`, "1:one"},
		{`{{ a[i64] }}`, "one"},
		{`{{ a[i32] }}`, "two"},
		{`{{ a[u8] }}`, "one"},
		{`{{ a[u] }}`, "one"},
		{`{{ a[ni] }}`, "one"},
	}
	for _, c := range cases {
		got, err := engine.ParseAndRenderString(c.src, bindings)
		if err != nil {
			t.Errorf("%q: unexpected error %v", c.src, err)
			continue
		}
		if got != c.want {
			t.Errorf("%q: got %q, want %q", c.src, got, c.want)
		}
	}
}

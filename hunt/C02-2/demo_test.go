package liquid

import (
	"strings"
	"testing"
)

// Property C02: the output is a function of the template text and the binding values only,
// never of memory addresses ("values are printed with fmt ... rather than by address").
//
// render.writeObject dereferences a pointer only when the value itself is a pointer (or an
// element of a slice). Every other value goes to fmt.Sprint, and fmt prints a pointer that
// is nested inside a map or a struct as its address: `{{ m }}` for m = map[string]*int{"a": &x}
// renders "map[a:0xc000012345]". Two renders with bindings that are equal value for value
// (x == 7 in both) therefore produce different bytes, and the bytes differ between processes.
//
// Correct behaviour: both renders yield the same bytes, with the pointer followed to the
// value it points to (as `{{ p }}` already does for a top-level pointer): "map[a:7]" and "{7}".
func TestHuntDemo(t *testing.T) {
	type holder struct{ P *int }
	var keep []*int // keep every allocation alive so that the addresses are distinct
	mk := func() map[string]any {
		x, y := new(int), new(int)
		*x, *y = 7, 7
		keep = append(keep, x, y)
		return map[string]any{"m": map[string]*int{"a": x}, "s": holder{y}}
	}
	render := func(src string) (out string) {
		defer func() {
			if r := recover(); r != nil {
				t.Errorf("panic rendering %q: %v", src, r)
			}
		}()
		out, err := NewEngine().ParseAndRenderString(src, mk())
		if err != nil {
			t.Errorf("rendering %q: %v", src, err)
		}
		return out
	}
	for _, src := range []string{`{{ m }}`, `{{ s }}`} {
		a, b := render(src), render(src)
		if a != b {
			t.Errorf("%s: two renders with equal bindings differ: %q vs %q", src, a, b)
		}
		if strings.Contains(a, "0x") {
			t.Errorf("%s: output %q contains a memory address", src, a)
		}
	}
	_ = keep
}

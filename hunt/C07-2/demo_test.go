package liquid

import (
	"errors"
	"fmt"
	"testing"
)

// Property C07: a render failure is a SourceError whose LineNumber is the line on which the
// innermost failing tag begins, however deeply nested and with or without a path.
//
// When the condition of an {% elsif %} clause or a value of a {% when %} clause fails to
// evaluate at render time (unknown filter, a filter that returns an error, a type error), the
// error is located at the enclosing {% if %} / {% case %} tag: the renderer built by
// ifTagCompiler / caseTagCompiler returns the bare evaluation error, and BlockNode.render wraps
// it with the location of the whole block. The if/case tag itself evaluated fine; the failing
// tag is the clause, which starts on a later line.
//
// Correct behaviour: LineNumber() is the line of the {% elsif %} / {% when %} tag.
func TestHuntDemo(t *testing.T) {
	defer func() {
		if r := recover(); r != nil {
			t.Errorf("panic: %v", r)
		}
	}()
	own := errors.New("own filter error")
	cases := []struct {
		name, src string
		wantLine  int // with start line 1
	}{
		// unknown filter in an elsif on line 4; the if is on line 2
		{"elsif unknown filter", "text\n{% if false %}\n\n{% elsif a | no_such_filter %}\nx\n{% endif %}\n", 4},
		// filter error in an elsif on line 5
		{"elsif filter error", "text\n{% if false %}\n\n\n{% elsif a | fail %}\nx\n{% endif %}\n", 5},
		// type error (range bound is not an integer) in a when on line 5; the case is on line 2
		{"when type error", "text\n{% case a %}\n{% when 7 %}\n\n{% when (1..'x') %}\nx\n{% endcase %}\n", 5},
		// nested: for(1) > if(2) > if(3) ... elsif(5)
		{"nested elsif", "{% for i in (1..2) %}\n{% if true %}\n{% if false %}\ny\n{% elsif a | no_such_filter %}\n{% endif %}\n{% endif %}\n{% endfor %}\n", 5},
	}
	for _, path := range []string{"", "dir/page.html"} {
		for _, start := range []int{1, 10} {
			for _, c := range cases {
				name := fmt.Sprintf("%s path=%q start=%d", c.name, path, start)
				e := NewEngine()
				e.RegisterFilter("fail", func(v any) (any, error) { return nil, own })
				tpl, err := e.ParseTemplateLocation([]byte(c.src), path, start)
				if err != nil {
					t.Errorf("%s: unexpected parse error: %v", name, err)
					continue
				}
				out, err := tpl.Render(Bindings{"a": 1})
				if err == nil {
					t.Errorf("%s: expected a render error, got output %q", name, out)
					continue
				}
				want := c.wantLine + start - 1
				if err.LineNumber() != want {
					t.Errorf("%s: LineNumber() = %d, want %d (the line of the failing clause tag); error: %v",
						name, err.LineNumber(), want, err)
				}
				if err.Path() != path {
					t.Errorf("%s: Path() = %q, want %q", name, err.Path(), path)
				}
			}
		}
	}
}

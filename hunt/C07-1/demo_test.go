package liquid

import (
	"fmt"
	"testing"
)

// Property C07: a parse failure is a SourceError whose LineNumber is the line on which the
// innermost failing tag begins (start line + newlines before it).
//
// A syntax error in a clause tag ({% elsif ... %} of an if, {% when ... %} of a case) is
// reported at the line of the enclosing {% if %} / {% case %} tag, not at the line of the
// clause tag whose arguments are malformed. The message quotes the clause's text but the
// location (and, without a path, the "in {% if ... %}" context) is the parent's.
//
// Correct behaviour: LineNumber() is the line of the {% elsif %} / {% when %} tag, because that
// is the innermost failing tag; the if/case tag itself is well-formed.
func TestHuntDemo(t *testing.T) {
	defer func() {
		if r := recover(); r != nil {
			t.Errorf("panic: %v", r)
		}
	}()
	cases := []struct {
		name, src string
		wantLine  int // with start line 1
	}{
		// line1: text, line2: if, line3: blank, line4: elsif (bad)
		{"elsif", "text\n{% if false %}\n\n{% elsif a | %}\nx\n{% endif %}\n", 4},
		// line1: text, line2: case, line3: when 1, line4: blank, line5: when (bad)
		{"when", "text\n{% case a %}\n{% when 1 %}\n\n{% when 2 or or %}\nx\n{% endcase %}\n", 5},
		// nested two deep: the outer blocks are fine, the elsif on line 5 is not
		{"nested elsif", "{% for i in (1..2) %}\n{% if true %}\n{% if false %}\ny\n{% elsif | %}\n{% endif %}\n{% endif %}\n{% endfor %}\n", 5},
	}
	for _, path := range []string{"", "dir/page.html"} {
		for _, start := range []int{1, 10} {
			for _, c := range cases {
				name := fmt.Sprintf("%s path=%q start=%d", c.name, path, start)
				e := NewEngine()
				_, err := e.ParseTemplateLocation([]byte(c.src), path, start)
				if err == nil {
					t.Errorf("%s: expected a parse error", name)
					continue
				}
				want := c.wantLine + start - 1
				if err.LineNumber() != want {
					t.Errorf("%s: LineNumber() = %d, want %d (the line of the failing clause tag); error: %v",
						name, err.LineNumber(), want, err)
				}
				if err.Path() != path {
					t.Errorf("%s: Path() = %q, want %q", name, err.Path(), path)
				}
				if err.Cause() == nil {
					t.Errorf("%s: Cause() is nil, want the syntax error", name)
				}
			}
		}
	}
}

package liquid

import (
	"testing"

	"github.com/osteele/liquid/render"
)

// C13: hyphens never remove (or add) anything but whitespace; the output of a template whose
// hyphens all face literal text equals that of the template with the hyphens dropped and the
// adjacent whitespace deleted.
//
// For a tag WITHOUT arguments that is closed with a space and a trim marker, `{% name -%}`,
// the scanner's optional argument group is tried first and matches the hyphen itself, so the tag
// gets Args == "-" (and a right-trim token as well). `{% name-%}` and `{% name %}` get Args == "".
// A tag registered through the public Engine.RegisterTag / RegisterBlock API therefore sees
// TagArgs() == "-" instead of "", i.e. the whitespace-control marker leaks into the tag's
// arguments and the rendered output changes by more than whitespace.
//
// Correct: `a {% echo -%} b` == `a {% echo %}b`  =>  "a []b".  Actual: "a [-]b".
func TestHuntDemo(t *testing.T) {
	defer func() {
		if r := recover(); r != nil {
			t.Errorf("panic: %v", r)
		}
	}()
	eng := NewEngine()
	eng.RegisterTag("echo", func(c render.Context) (string, error) {
		return "[" + c.TagArgs() + "]", nil
	})
	eng.RegisterBlock("box", func(c render.Context) (string, error) {
		s, err := c.InnerString()
		return "<" + c.TagArgs() + ":" + s + ">", err
	})
	for _, c := range []struct{ src, dropped string }{
		{"a {% echo -%} b", "a {% echo %}b"},
		{"a {%- echo -%} b", "a{% echo %}b"},
		{"a {% echo\n-%}\n b", "a {% echo %}b"},
		{"a {% box -%} x {% endbox %} b", "a {% box %}x {% endbox %} b"},
	} {
		got, err := eng.ParseAndRenderString(c.src, Bindings{})
		if err != nil {
			t.Errorf("%q: unexpected error %v", c.src, err)
			continue
		}
		want, err := eng.ParseAndRenderString(c.dropped, Bindings{})
		if err != nil {
			t.Errorf("%q: unexpected error %v", c.dropped, err)
			continue
		}
		if got != want {
			t.Errorf("%q rendered %q; want %q (the output of %q): the trim hyphen was handed to the tag as its argument", c.src, got, want, c.dropped)
		}
	}
}

package liquid

import (
	"fmt"
	"testing"
)

// C01: for every byte string used as template source, parsing and rendering return
// either output or a non-nil SourceError; they never panic.
//
// The expression parser recognises four private "statement selector" tokens
// ("%assign ", "%loop ", "{%cycle ", "{%when ") that the tag compilers prepend to a
// tag's arguments (expressions.ParseStatement). The scanner also accepts them when they
// are spelled out in the template itself. expressions.Parse then succeeds on a
// *statement* - the grammar's start rule fills in lexer.Assignment / Loop / Cycle / When
// and leaves lexer.val nil - and returns &expression{nil}. Evaluating it calls a nil
// func: a runtime error (nil pointer dereference) that expression.Evaluate re-raises,
// so the panic escapes ParseAndRender.
//
// Correct behaviour: "%assign x = 1" and friends are not expressions, so each of these
// templates must be rejected with a SourceError (a syntax error at parse time is the
// natural place); in no case may a panic escape.
func TestHuntDemo(t *testing.T) {
	sources := []string{
		`{{ %assign x = 1 }}`,
		`{% if %loop x in y %}a{% endif %}`,
		`{% unless %assign x = 1 %}a{% endunless %}`,
		`{% case {%when 1 %}{% endcase %}`,
		`{{ {%cycle "a", "b" }}`,
		`{% if true %}{% elsif %assign x = 1 %}{% endif %}`,
	}
	for _, src := range sources {
		func() {
			defer func() {
				if r := recover(); r != nil {
					msg := fmt.Sprint(r)
					if len(msg) > 160 {
						msg = msg[:160] + "..."
					}
					t.Errorf("ParseAndRenderString(%q) panicked: %s", src, msg)
				}
			}()
			out, err := NewEngine().ParseAndRenderString(src, Bindings{})
			if err == nil {
				t.Errorf("ParseAndRenderString(%q) = %q, nil; want a SourceError: a statement selector is not an expression", src, out)
			}
		}()
	}
}

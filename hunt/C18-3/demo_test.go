package liquid

import (
	"fmt"
	"testing"
)

type huntDrop3 struct{ v any }

func (d huntDrop3) ToLiquid() any { return d.v }

// Property C18: string-keyed typed maps behave as generic ones with the same contents,
// integers of every width compare by numeric value, and a Drop nested in a map behaves
// as its ToLiquid value - in comparisons too. values.Equal compares arrays element by
// element with Liquid equality (so [1] == [int64(1)] == [Drop(1)]), but maps fall to
// reflect.DeepEqual, which demands identical Go types all the way down. The same two
// logical maps are therefore equal or unequal depending on their Go representation.
//
// Correct behaviour: every environment below holds a = {"k": 1} and b = {"k": 1}, so
// a == b (and its uses in case/when and contains) must give the same answer, "eq",
// as it does for two map[string]any.
func TestHuntDemo(t *testing.T) {
	render := func(tpl string, b map[string]any) (out string) {
		defer func() {
			if r := recover(); r != nil {
				out = fmt.Sprintf("PANIC: %v", r)
			}
		}()
		s, err := NewEngine().ParseAndRenderString(tpl, b)
		if err != nil {
			return "ERROR: " + err.Error()
		}
		return s
	}
	generic := map[string]any{"a": map[string]any{"k": 1}, "b": map[string]any{"k": 1}}
	variants := map[string]map[string]any{
		"b is a map[string]int":   {"a": map[string]any{"k": 1}, "b": map[string]int{"k": 1}},
		"b's element is an int64": {"a": map[string]any{"k": 1}, "b": map[string]any{"k": int64(1)}},
		"b's element is a Drop":   {"a": map[string]any{"k": 1}, "b": map[string]any{"k": huntDrop3{1}}},
	}
	for _, tpl := range []string{
		`{% if a == b %}eq{% else %}ne{% endif %}`,
		`{% if a != b %}ne{% else %}eq{% endif %}`,
		`{% case a %}{% when b %}eq{% else %}ne{% endcase %}`,
	} {
		want := render(tpl, generic)
		for name, env := range variants {
			if got := render(tpl, env); got != want {
				t.Errorf("%s: two map[string]any{\"k\": 1} render %q, but when %s it renders %q", tpl, want, name, got)
			}
		}
	}
	// control: the same representation changes on arrays do not change the result
	arrTpl := `{% if a == b %}eq{% else %}ne{% endif %}`
	if got := render(arrTpl, map[string]any{"a": []int{1}, "b": []any{huntDrop3{int64(1)}}}); got != "eq" {
		t.Errorf("control (arrays): got %q", got)
	}
}

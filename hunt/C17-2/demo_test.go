package liquid

import (
	"testing"
)

// C17: "... a string operand that does not spell a number, is reported as an
// error instead of producing output".
//
// The strings "nan", "inf", "Infinity", "-inf" do not spell a number ("nan" is
// literally not-a-number), exactly like "abc", which IS reported as
// "can't convert string(abc) to type float64". But the conversion uses
// strconv.ParseFloat, which accepts these words (case-insensitively), so the
// numeric filters silently produce output such as "NaN", "+Inf" and - for ceil
// and floor, which cast the float to int - "-9223372036854775808".
// (The same laxness lets Go-only spellings through: "0x1p4" | plus: 1 is 17 and
// "1_0" | plus: 1 is 11, although "0x10" and " 12" are rejected.)
//
// Correct behaviour: every one of these renders must return an error and no output.
func TestHuntDemo(t *testing.T) {
	e := NewEngine()
	srcs := []string{
		`{{ "nan" | plus: 1 }}`,
		`{{ "NaN" | times: 0 }}`,
		`{{ "inf" | minus: 1 }}`,
		`{{ "Infinity" | abs }}`,
		`{{ "-inf" | ceil }}`,
		`{{ "nan" | floor }}`,
		`{{ "+Inf" | round }}`,
		`{{ "inf" | divided_by: 2 }}`,
		`{{ "nan" | modulo: 2 }}`,
		`{{ 1 | plus: "nan" }}`,
		`{{ 1 | times: "infinity" }}`,
	}
	for _, src := range srcs {
		func() {
			defer func() {
				if r := recover(); r != nil {
					t.Errorf("%s: panic: %v", src, r)
				}
			}()
			out, err := e.ParseAndRenderString(src, nil)
			if err == nil {
				t.Errorf("%s: rendered %q without error; the string operand does not spell a number and must be reported as an error", src, out)
			}
		}()
	}
	// control: an ordinary non-numeric string is (correctly) an error
	if _, err := e.ParseAndRenderString(`{{ "abc" | plus: 1 }}`, nil); err == nil {
		t.Errorf(`control: {{ "abc" | plus: 1 }} should be an error`)
	}
}

package liquid

import "testing"

// C06: a template parses successfully exactly when every block tag (comment is listed
// among them) is closed by its own end tag in properly nested order.
//
// In the templates below every {% comment %} is closed by its own {% endcomment %} and the
// blocks are properly nested, so they must be accepted and render "AB" (Shopify Liquid
// accepts nested comment blocks in every version; since 5.5 it also honours a raw block
// inside a comment). The parser keeps a single inComment flag instead of a depth: the
// first {% endcomment %} closes the outer comment, " still outer " would be rendered, and
// the second {% endcomment %} is reported as standing alone - a well-nested template is
// rejected. This is what happens when a region that already contains a comment is
// commented out.
func TestHuntDemo(t *testing.T) {
	defer func() {
		if r := recover(); r != nil {
			t.Errorf("panic: %v", r)
		}
	}()
	e := NewEngine()
	for _, src := range []string{
		`A{% comment %} outer {% comment %} inner {% endcomment %} still outer {% endcomment %}B`,
		`A{% comment %}{% if x %}{% comment %}note{% endcomment %}{{ x }}{% endif %}{% endcomment %}B`,
	} {
		out, err := e.ParseAndRenderString(src, map[string]any{"x": 1})
		if err != nil {
			t.Errorf("%s: properly nested comment blocks are rejected: %v", src, err)
			continue
		}
		if out != "AB" {
			t.Errorf("%s: rendered %q, want \"AB\"", src, out)
		}
	}
}

package liquid

import (
	"errors"
	"fmt"
	"testing"
)

type huntAccount struct{ Name string }

// Balance is an ordinary Go accessor that can fail.
func (a huntAccount) Balance() (int, error) { return 0, errors.New("ledger unavailable") }

// C08: a property step `a.b` either reads a value, or yields nil, or the failure is
// "reported as an error" - the property's observation points are the rendered output
// and the errors returned. When `b` names a struct method whose second result is a
// non-nil error, values.structValue.invoke panics with that plain error;
// expressions.expression.Evaluate recovers it, sees an `error` that is none of its
// known kinds and panics again (a *rethrownError). Nothing above it recovers, so the
// panic escapes from Template.Render / Engine.ParseAndRender and takes the caller's
// program down.
//
// Correct behaviour: ParseAndRenderString returns a non-nil error that mentions the
// method's error ("ledger unavailable"), and does not panic.
func TestHuntDemo(t *testing.T) {
	engine := NewEngine()
	bindings := map[string]any{"acct": huntAccount{"ann"}}
	for _, src := range []string{
		`{{ acct.Balance }}`,
		`{{ acct["Balance"] }}`,
		`{% if acct.Balance > 0 %}rich{% endif %}`,
	} {
		func() {
			defer func() {
				if r := recover(); r != nil {
					msg := fmt.Sprint(r)
					if len(msg) > 120 {
						msg = msg[:120] + "..."
					}
					t.Errorf("%q: a panic escaped from ParseAndRenderString (want a returned error): %s", src, msg)
				}
			}()
			out, err := engine.ParseAndRenderString(src, bindings)
			if err == nil {
				t.Errorf("%q: got output %q and no error, want the method's error to be returned", src, out)
			}
		}()
	}
}

package liquid

import (
	"fmt"
	"testing"
)

// Property C10: "case renders the first when clause listing a value equal (by ==) to its
// subject, otherwise the else clause, otherwise nothing."
//
// The else clause is only a fallback: it may be rendered only when NO when clause lists a value
// equal to the subject. caseTagCompiler turns {% else %} into an always-true test that is tried
// in source order together with the when clauses, so an {% else %} that is written before a
// matching {% when %} wins, and the matching when clause is never rendered.
//
// Correct behaviour: with x = 1 the templates below render "A" (the when clause that lists 1),
// or the template is rejected at parse time because else is not the last clause. Rendering "E"
// is wrong either way.
func TestHuntDemo(t *testing.T) {
	render := func(tpl string, b map[string]any) (out string) {
		defer func() {
			if r := recover(); r != nil {
				out = fmt.Sprintf("PANIC: %v", r)
			}
		}()
		s, err := NewEngine().ParseAndRenderString(tpl, b)
		if err != nil {
			return "ERROR: " + err.Error()
		}
		return s
	}
	b := map[string]any{"x": 1}
	for _, tpl := range []string{
		"{% case x %}{% when 2 %}B{% else %}E{% when 1 %}A{% endcase %}",
		"{% case x %}{% else %}E{% when 1 %}A{% endcase %}",
	} {
		// a parse-time rejection is acceptable too
		if _, err := NewEngine().ParseString(tpl); err != nil {
			continue
		}
		// sanity: the same clauses with else last select the when clause
		if got := render(tpl, b); got != "A" {
			t.Errorf("%s with x=1 rendered %q; a when clause lists 1, so the result must be %q (else is only the fallback)", tpl, got, "A")
		}
	}
}

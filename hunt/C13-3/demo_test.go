package liquid

import "testing"

// C13 with custom delimiters (Engine.Delims): a hyphen inside a delimiter only strips the
// adjacent literal whitespace; it never removes anything else and never changes how the rest of
// the template is read.
//
// With the tag delimiters set to the HTML-comment style "<!--" / "-->", an argument-less tag
// closed with a trim marker, `<!-- endif --->` (or else/endfor/raw/comment/break ...), is
// mis-scanned: the optional argument group is tried first, its exclusion expression
// `[^-]|-[^-]|--[^>]` accepts "---" (the marker plus the first two characters of the closing
// delimiter) as argument text, and the tag then runs on to the NEXT "-->" in the source,
// swallowing all the literal text and tags in between. Without the hyphen the same template is
// read correctly.
//
// Correct: `a <!-- if x --> b <!-- endif ---> c <!-- if x --> d <!-- endif --> e`
// equals   `a <!-- if x --> b <!-- endif -->c <!-- if x --> d <!-- endif --> e`  =>  "a  b c  d  e".
// Actual: parse error "endif not inside ..." (text " c " and the second `if` tag were eaten).
func TestHuntDemo(t *testing.T) {
	defer func() {
		if r := recover(); r != nil {
			t.Errorf("panic: %v", r)
		}
	}()
	eng := NewEngine()
	eng.Delims("{{", "}}", "<!--", "-->")
	b := Bindings{"x": true}
	for _, c := range []struct{ src, dropped string }{
		{"a <!-- if x --> b <!-- endif ---> c <!-- if x --> d <!-- endif --> e",
			"a <!-- if x --> b <!-- endif -->c <!-- if x --> d <!-- endif --> e"},
		{"a <!-- if x --> b <!-- else ---> c <!-- endif --> e",
			"a <!-- if x --> b <!-- else -->c <!-- endif --> e"},
		// control: the left marker, and a right marker on a tag with arguments, work
		{"a <!-- if x ---> b <!--- endif --> c", "a <!-- if x -->b<!-- endif --> c"},
	} {
		want, err := eng.ParseAndRenderString(c.dropped, b)
		if err != nil {
			t.Errorf("%q: unexpected error %v", c.dropped, err)
			continue
		}
		got, err := eng.ParseAndRenderString(c.src, b)
		if err != nil {
			t.Errorf("%q: error %v; want output %q (that of %q): the trim hyphen made the scanner swallow the text up to the next closing delimiter", c.src, err, want, c.dropped)
			continue
		}
		if got != want {
			t.Errorf("%q rendered %q; want %q (the output of %q)", c.src, got, want, c.dropped)
		}
	}
}

package liquid

import (
	"sync"
	"testing"
)

// ParseTemplateAndCache stores the caller's []byte itself in the engine's include cache
// (engine.go: e.cfg.Cache[path] = source). Every other parse method converts the source to
// a string before it returns, so a caller may refill its read buffer as soon as the call is
// over. With ParseTemplateAndCache the buffer stays shared with every later render of
// {% include %}: a goroutine that reuses its buffer for the next file races with the renders
// of other goroutines (RenderFile reads the bytes with string(source)), and those renders
// return something other than what they return when run alone.
//
// Correct behaviour: the cache keeps its own copy (or a string) of the source, so a render of
// {% include "header.html" %} always yields the text that was parsed and cached, "HEADER-A".
// C04 requires this: concurrent renders must be free of data races on shared state and must
// return exactly what they return when run alone.
func TestHuntDemo(t *testing.T) {
	defer func() {
		if r := recover(); r != nil {
			t.Errorf("panic: %v", r)
		}
	}()
	e := NewEngine()
	buf := []byte("HEADER-A")
	if _, err := e.ParseTemplateAndCache(buf, "header.html", 1); err != nil {
		t.Fatal(err)
	}
	tpl, err := e.ParseString(`{% include "header.html" %}`)
	if err != nil {
		t.Fatal(err)
	}
	alone, err := tpl.RenderString(nil)
	if err != nil {
		t.Fatal(err)
	}
	if alone != "HEADER-A" {
		t.Fatalf("sequential render = %q, want %q", alone, "HEADER-A")
	}

	// One goroutine goes on to read its next file into the same buffer (here: parses it with
	// the plain, non-caching ParseTemplate, which is allowed concurrently); the others render.
	var wg sync.WaitGroup
	start := make(chan struct{})
	wg.Add(1)
	go func() {
		defer wg.Done()
		<-start
		copy(buf, "footer-B") // the caller's own buffer, the call that received it has returned
		if _, err := e.ParseTemplate(buf); err != nil {
			t.Errorf("parse: %v", err)
		}
	}()
	close(start)
	wg.Wait()

	results := make([]string, 8)
	for i := range results {
		wg.Add(1)
		go func(i int) {
			defer wg.Done()
			out, err := tpl.RenderString(nil)
			if err != nil {
				out = "error: " + err.Error()
			}
			results[i] = out
		}(i)
	}
	wg.Wait()
	for i, out := range results {
		if out != alone {
			t.Errorf("render %d of {%% include \"header.html\" %%} = %q after the caller reused its source buffer; want %q (what was parsed and cached): the engine cache aliases the caller's slice", i, out, alone)
			break
		}
	}
}

package liquid

import (
	"os"
	"path/filepath"
	"testing"
)

// C14: an include whose file contains {% break %} (or {% continue %}) and is included from
// inside a for loop must insert exactly what rendering the file's content in place would give.
// Inlined, `{% for i in (1..3) %}[{{ i }}pre{% break %}post]{% endfor %}` renders "[1pre": the
// text before the break is written, then the loop ends. (The other defensible reading is that
// the break is an error inside the included template - rendering "pre{% break %}post" on its own
// fails with "break outside a loop" - in which case the render must fail with a SourceError.)
//
// The library does neither: RenderFile renders the file into a private buffer and throws the
// buffer away when Render returns the loop-control sentinel error; the enclosing loop then
// swallows that sentinel as an ordinary break. The render succeeds and the text the included
// file had already produced ("pre") is silently lost.
func TestHuntDemo(t *testing.T) {
	defer func() {
		if r := recover(); r != nil {
			t.Errorf("panic: %v", r)
		}
	}()
	dir := t.TempDir()
	if err := os.WriteFile(filepath.Join(dir, "brk.html"), []byte("pre{% break %}post"), 0o644); err != nil {
		t.Fatal(err)
	}
	if err := os.WriteFile(filepath.Join(dir, "cont.html"), []byte("pre{% continue %}post"), 0o644); err != nil {
		t.Fatal(err)
	}
	e := NewEngine()
	main := filepath.Join(dir, "main.html")
	for _, c := range []struct{ file, tag string }{{"brk.html", "break"}, {"cont.html", "continue"}} {
		inlinedSrc := `{% for i in (1..3) %}[{{ i }}pre{% ` + c.tag + ` %}post]{% endfor %}`
		includeSrc := `{% for i in (1..3) %}[{{ i }}{% include "` + c.file + `" %}]{% endfor %}`

		tpl, err := e.ParseTemplateLocation([]byte(inlinedSrc), main, 1)
		if err != nil {
			t.Fatal(err)
		}
		want, err := tpl.RenderString(Bindings{})
		if err != nil {
			t.Fatal(err)
		}
		tpl, err = e.ParseTemplateLocation([]byte(includeSrc), main, 1)
		if err != nil {
			t.Fatal(err)
		}
		got, err := tpl.RenderString(Bindings{})
		if err != nil {
			continue // failing the render with a SourceError is an acceptable reading
		}
		if got != want {
			t.Errorf("%s: include rendered %q without error; the inlined content renders %q (text written by the included file before {%% %s %%} was dropped)", c.file, got, want, c.tag)
		}
	}
}

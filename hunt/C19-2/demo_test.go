package liquid

import (
	"fmt"
	"testing"

	"github.com/osteele/liquid/render"
)

// C19: a template written with custom delimiters must render exactly as the
// same template written with the default delimiters renders on a default
// engine, and the default delimiter strings become ordinary text.
//
// render.Context.ExpandTagArg ("renders the current tag argument string as a
// Liquid template", used for Jekyll-style tags such as
// {% include {{ page.my_variable }} %}) decides whether there is anything to
// expand by looking for the literal string "{{" in the arguments, whatever the
// engine's object delimiter is. With Delims("[[", "]]", "<%", "%>") the tag
// <% echo a [[ x ]] b %> must therefore expand to "a 5 b", as
// {% echo a {{ x }} b %} does on a default engine; instead the arguments are
// returned unexpanded.
func TestHuntDemo(t *testing.T) {
	mk := func() *Engine {
		e := NewEngine()
		e.RegisterTag("echo", func(c render.Context) (string, error) {
			s, err := c.ExpandTagArg()
			return "<" + s + ">", err
		})
		return e
	}
	run := func(e *Engine, src string) (out string) {
		defer func() {
			if r := recover(); r != nil {
				out = fmt.Sprintf("PANIC: %v", r)
			}
		}()
		s, err := e.ParseAndRenderString(src, Bindings{"x": 5})
		if err != nil {
			return "ERROR: " + err.Error()
		}
		return s
	}
	want := run(mk(), `{% echo a {{ x }} b %}`)
	if want != "<a 5 b>" {
		t.Fatalf("default engine: got %q, want %q", want, "<a 5 b>")
	}
	got := run(mk().Delims("[[", "]]", "<%", "%>"), `<% echo a [[ x ]] b %>`)
	if got != want {
		t.Errorf("Delims(\"[[\", \"]]\", \"<%%\", \"%%>\"): <%% echo a [[ x ]] b %%> renders %q; the default spelling on a default engine renders %q", got, want)
	}
}

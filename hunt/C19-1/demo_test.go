package liquid

import (
	"fmt"
	"testing"
)

// C19: a template written with custom delimiters must render exactly as the
// same template written with the default delimiters renders on a default engine.
//
// Here the tag-right delimiter is ")>" (distinct from, and not a prefix of, the
// other three). The tag arguments end in the character that starts that
// delimiter - "(1..3)" ends in ")" and is directly followed by ")>" - just as
// the default spelling "{% for i in (1..3)%}" has the arguments directly
// followed by "%}". The default engine renders "123" (and "1" for the assign
// case); the custom engine must render the same. Instead the scanner's "exclusion" expression for the tag
// arguments ("[^)]|\)[^>]") consumes the last ")" of the arguments together with
// the first ")" of the delimiter, so the tag is not closed where it should be:
// the for tag swallows the text up to a later ")>", and the assign tag is not
// recognised at all.
func TestHuntDemo(t *testing.T) {
	render := func(e *Engine, src string) (out string) {
		defer func() {
			if r := recover(); r != nil {
				out = fmt.Sprintf("PANIC: %v", r)
			}
		}()
		s, err := e.ParseAndRenderString(src, Bindings{"a": []int{1, 2, 3}})
		if err != nil {
			return "ERROR: " + err.Error()
		}
		return s
	}

	cases := []struct{ def, custom string }{
		{
			`{% for i in (1..3)%}{{ i }}{% endfor %}`,
			`<% for i in (1..3))><< i >><% endfor )>`,
		},
		{
			`{% assign y = (1..3)%}{{ y | first }}`,
			`<% assign y = (1..3))><< y | first >>`,
		},
	}
	for _, c := range cases {
		want := render(NewEngine(), c.def)
		got := render(NewEngine().Delims("<<", ">>", "<%", ")>"), c.custom)
		if got != want {
			t.Errorf("Delims(\"<<\", \">>\", \"<%%\", \")>\"):\n  default engine, %q -> %q\n  custom engine,  %q -> %q\n  the two must be equal", c.def, want, c.custom, got)
		}
	}

	// the same with "])" and an index expression that ends in "]"
	want := render(NewEngine(), `{% assign y = a[0]%}_{{ y }}_`)
	got := render(NewEngine().Delims("<<", ">>", "<%", "])"), `<% assign y = a[0]])_<< y >>_`)
	if got != want {
		t.Errorf("Delims(\"<<\", \">>\", \"<%%\", \"])\"): default engine renders %q, custom engine renders %q", want, got)
	}
}

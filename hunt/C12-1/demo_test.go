package liquid

import (
	"testing"
)

// C12: "A variable set by ... capture ... holds ... exactly the text its captured body
// rendered", also when the enclosing loop "ends ... by break".
//
// A {% break %} (or {% continue %}) that fires inside a capture body stops the body, as it
// stops any other block body. The capture must still bind what its body rendered up to that
// point - the text has been rendered and, being captured, was not output, so otherwise it is
// simply lost - and only then let the interrupt travel on to the loop (this is what Shopify
// Liquid does: Capture#render assigns the partial output, the interrupt stays pending).
// The library instead treats the break as a failure of the capture: captureTagCompiler
// returns InnerString's error before ctx.Set, so the variable keeps a stale value from an
// earlier iteration (or is never set at all).
//
// Correct results: acc == "12" for the break case, last == "3" for the continue case.
func TestHuntDemo(t *testing.T) {
	defer func() {
		if r := recover(); r != nil {
			t.Errorf("panic: %v", r)
		}
	}()
	e := NewEngine()
	for _, c := range []struct{ src, want string }{
		{
			// accumulate into acc, stop at 2: body renders "1" then "12" (then breaks)
			`{% for i in (1..3) %}{% capture acc %}{{ acc }}{{ i }}{% if i == 2 %}{% break %}{% endif %}{% endcapture %}{% endfor %}[{{ acc }}]`,
			"[12]",
		},
		{
			// every iteration's body renders the index and then continues
			`{% for i in (1..3) %}{% capture last %}{{ i }}{% continue %}never{% endcapture %}{% endfor %}[{{ last }}]`,
			"[3]",
		},
	} {
		got, err := e.ParseAndRenderString(c.src, Bindings{})
		if err != nil {
			t.Errorf("%s: unexpected error %v", c.src, err)
			continue
		}
		if got != c.want {
			t.Errorf("%s\n  rendered %q, want %q: the text the capture body rendered before the interrupt was dropped", c.src, got, c.want)
		}
	}
}

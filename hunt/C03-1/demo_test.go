package liquid

import (
	"fmt"
	"testing"
	"time"
)

// Property C03: a Template rendered again with equal (here: the very same) bindings must give
// byte-identical output, whatever happened in between; in particular the output must not depend
// on Go's randomised map iteration order.
//
// values.SortedMapKeys orders the keys of a map with mapKeyLess, which compares two keys of the
// same reflect.Kind by their numeric / string / printed value only. Two DISTINCT keys that compare
// equal there - an int and a value of a named integer type in a map[any]any, a string and a named
// string, two struct keys that fmt.Sprint prints alike - form a tie, and the stable sort leaves a
// tie in the (random) order that reflect.Value.MapKeys delivered. {% for %} over the map, and every
// array filter applied to it (first, last, join, sort, ...), then changes from render to render.
//
// Correct behaviour: the same template with the same bindings renders the same bytes every time;
// ties must be broken by something that depends only on the keys (e.g. their type).
func TestHuntDemo(t *testing.T) {
	type item struct{ A, B string }
	cases := []struct {
		name, tpl string
		b         Bindings
	}{
		{
			"int and named int keys in a map[any]any",
			`{% for p in m %}{{ p[1] }};{% endfor %}`,
			Bindings{"m": map[any]any{1: "int", time.Monday: "weekday"}},
		},
		{
			"first filter on a map with an int64 and a time.Duration key",
			`{{ m | first }}`,
			Bindings{"m": map[any]any{int64(5): "int64", time.Duration(5): "duration"}},
		},
		{
			"struct keys that print alike",
			`{% for p in m %}{{ p[1] }};{% endfor %}`,
			Bindings{"m": map[item]int{{"a b", "c"}: 1, {"a", "b c"}: 2}},
		},
	}
	engine := NewEngine()
	for _, c := range cases {
		tpl, err := engine.ParseString(c.tpl)
		if err != nil {
			t.Fatalf("%s: parse: %v", c.name, err)
		}
		seen := map[string]int{}
		for i := 0; i < 400; i++ {
			out, rerr := func() (out string, err error) {
				defer func() {
					if r := recover(); r != nil {
						err = fmt.Errorf("panic: %v", r)
					}
				}()
				s, e := tpl.RenderString(c.b)
				if e != nil {
					return "", e
				}
				return s, nil
			}()
			if rerr != nil {
				t.Errorf("%s: render %d failed: %v", c.name, i, rerr)
				break
			}
			seen[out]++
		}
		if len(seen) > 1 {
			t.Errorf("%s: template %q rendered 400 times against the same bindings gave %d different outputs: %v",
				c.name, c.tpl, len(seen), seen)
		}
	}
}

package liquid

import (
	"fmt"
	"strings"
	"testing"
)

// C16: nil converts to the empty string when a string filter needs text.
//
// A nil (or undefined) value given for an ordinary string parameter is the
// empty string: {{ s | append: nil }} is s. But the optional parameters of
// truncate, truncatewords and join (the ones that arrive as default-supplying
// functions) convert nil with fmt.Sprint, so the literal text "<nil>" is
// written into the output:
//
//	{{ "Ground control" | truncate: 8, nil }}   -> "Gro<nil>"
//	{{ "a b c" | truncatewords: 1, missing }}   -> "a<nil>"
//	{{ arr | join: missing }}                   -> "a<nil>b"
//
// Correct behaviour (Liquid: nil.to_s == ""): an empty ellipsis / separator,
// i.e. "Ground c", "a", "ab". In particular split and join stop being inverse
// and truncate yields text that was in neither the input nor the arguments.
func TestHuntDemo(t *testing.T) {
	render := func(tpl string, b map[string]any) (out string, err error) {
		defer func() {
			if r := recover(); r != nil {
				err = fmt.Errorf("panic: %v", r)
			}
		}()
		return NewEngine().ParseAndRenderString(tpl, b)
	}
	b := map[string]any{"arr": []string{"a", "b"}}
	for _, c := range []struct{ tpl, want string }{
		{`{{ "Ground control" | append: nil }}`, "Ground control"}, // passes: the reference behaviour
		{`{{ "Ground control" | truncate: 8, nil }}`, "Ground c"},
		{`{{ "Ground control" | truncate: 8, missing }}`, "Ground c"},
		{`{{ "a b c" | truncatewords: 1, nil }}`, "a"},
		{`{{ arr | join: nil }}`, "ab"},
		{`{{ arr | join: missing }}`, "ab"},
	} {
		out, err := render(c.tpl, b)
		if err != nil {
			t.Errorf("%s: unexpected error %v", c.tpl, err)
			continue
		}
		if out != c.want || strings.Contains(out, "<nil>") {
			t.Errorf("%s: got %q, want %q", c.tpl, out, c.want)
		}
	}
}

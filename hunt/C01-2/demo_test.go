package liquid

import (
	"fmt"
	"testing"
	"time"
)

// C01: parsing and rendering never panic, "whatever the template asks for: out-of-range
// indices and lengths, ... oversized literals", and they return in time proportional to the
// loops and ranges the template spells out.
//
// values.ValueOf has no case for values.Range, so a range literal is wrapped as a
// structValue (Range is a Go struct). structValue.PropertyValue / IndexValue call any
// niladic exported method by name, which makes Range's Go methods template properties:
// `(1..5).Len` renders 5 and `(a..b).AsArray` calls Range.AsArray directly. That path
// bypasses the maxRangeArrayLen guard that values.Convert applies before it calls
// AsArray, so for the range 1..MaxInt64 AsArray runs make([]any, 0, MaxInt) and the
// runtime panics with "makeslice: cap out of range"; expression.Evaluate re-raises the
// runtime error and it escapes ParseAndRender. (A range of a few thousand million elements,
// e.g. (1..4000000000).AsArray, does not panic but tries to allocate tens of gigabytes.)
//
// Correct behaviour: no panic - the property access either yields nil (a range has no
// such Liquid property) or is reported as a SourceError, exactly as
// `{{ (1..9223372036854775807) | join }}` already is.
func TestHuntDemo(t *testing.T) {
	sources := []string{
		`{{ (1..9223372036854775807).AsArray }}`,
		`{% assign r = (1..9223372036854775807) %}{{ r["AsArray"] | size }}`,
		`{% if (-9223372036854775807..9223372036854775807).AsArray %}y{% endif %}`,
	}
	for _, src := range sources {
		func() {
			defer func() {
				if r := recover(); r != nil {
					msg := fmt.Sprint(r)
					if len(msg) > 160 {
						msg = msg[:160] + "..."
					}
					t.Errorf("ParseAndRenderString(%q) panicked: %s", src, msg)
				}
			}()
			start := time.Now()
			out, err := NewEngine().ParseAndRenderString(src, Bindings{})
			if d := time.Since(start); d > 5*time.Second {
				t.Errorf("ParseAndRenderString(%q) took %v", src, d)
			}
			t.Logf("%q => %q, %v", src, out, err)
		}()
	}
}

package liquid

import (
	"fmt"
	"testing"
	"time"
)

// Property C18: a pointer reached by variable or property lookup behaves as what it
// points to. values.ValueOf dereferences pointers, except pointers to structs, which it
// keeps (so that pointer-receiver methods stay reachable). A *time.Time therefore
// arrives at the output stage and at filter argument conversion still as a pointer:
//   - render.writeObject only knows time.Time, not *time.Time; its reflect.Ptr case passes
//     a reflect.Value to fmt.Sprint, which prints Time.String() ("... +0000 UTC")
//     instead of the format used for a time.Time ("2006-01-02 15:04:05 -0700");
//   - values.Convert cannot convert *time.Time to time.Time, so the date filter fails.
//
// Correct behaviour: {{ t }}, {{ t | date: ... }} and the same through a map lookup
// render identically whether the binding is a time.Time or a pointer to it.
func TestHuntDemo(t *testing.T) {
	render := func(tpl string, b map[string]any) (out string) {
		defer func() {
			if r := recover(); r != nil {
				out = fmt.Sprintf("PANIC: %v", r)
			}
		}()
		s, err := NewEngine().ParseAndRenderString(tpl, b)
		if err != nil {
			return "ERROR: " + err.Error()
		}
		return s
	}
	tm := time.Date(2020, 1, 2, 3, 4, 5, 0, time.UTC)
	byValue := map[string]any{"t": tm, "m": map[string]any{"t": tm}}
	byPointer := map[string]any{"t": &tm, "m": map[string]any{"t": &tm}}
	for _, tpl := range []string{
		`{{ t }}`,
		`{{ m.t }}`,
		`{{ t | date: "%Y-%m-%d" }}`,
		`{{ m.t | date: "%Y-%m-%d" }}`,
	} {
		want, got := render(tpl, byValue), render(tpl, byPointer)
		if want != got {
			t.Errorf("%s: time.Time renders %q, *time.Time to the same time renders %q", tpl, want, got)
		}
	}
}

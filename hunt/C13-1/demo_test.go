package liquid

import "testing"

// C13: a hyphen inside a delimiter removes all whitespace of the literal text immediately
// adjacent to that side of the tag. The text between {% raw %} and {% endraw %} is literal text
// (it is copied to the output verbatim), so the inner hyphens of `{% raw -%}` and `{%- endraw %}`
// face literal text and must strip its leading / trailing whitespace: the output must equal that
// of the template with the hyphens dropped and the adjacent whitespace deleted,
// i.e. `a {% raw %}x{% endraw %} b`  =>  "a x b".
//
// The parser swallows the trim tokens that the scanner emits while it is inside a raw block
// (their Source is "", so they are appended to the raw slices as empty strings), so the two
// hyphens are silently ignored and the whitespace survives: "a  x  b".
// The same markers on every other block tag (if/for/capture/...) do trim.
func TestHuntDemo(t *testing.T) {
	defer func() {
		if r := recover(); r != nil {
			t.Errorf("panic: %v", r)
		}
	}()
	eng := NewEngine()
	for _, c := range []struct{ src, dropped string }{
		{"a {% raw -%} x {%- endraw %} b", "a {% raw %}x{% endraw %} b"},
		{"a {% raw -%}\n\t x{% endraw %} b", "a {% raw %}x{% endraw %} b"},
		{"a {% raw %}x \n{%- endraw %} b", "a {% raw %}x{% endraw %} b"},
		// whitespace-only raw text between two markers
		{"a{% raw -%} \n {%- endraw %}b", "a{% raw %}{% endraw %}b"},
		// only the adjacent run goes; tags inside raw stay verbatim
		{"{% raw -%}  {{- y -}}  {%- endraw %}", "{% raw %}{{- y -}}{% endraw %}"},
	} {
		got, err := eng.ParseAndRenderString(c.src, Bindings{})
		if err != nil {
			t.Errorf("%q: unexpected error %v", c.src, err)
			continue
		}
		want, err := eng.ParseAndRenderString(c.dropped, Bindings{})
		if err != nil {
			t.Errorf("%q: unexpected error %v", c.dropped, err)
			continue
		}
		if got != want {
			t.Errorf("%q rendered %q; want %q (the output of %q): the hyphens inside raw/endraw did not strip the adjacent literal whitespace", c.src, got, want, c.dropped)
		}
	}
	// control: the same placement on another block does trim
	got, _ := eng.ParseAndRenderString("a {% if true -%} x {%- endif %} b", Bindings{})
	if got != "a x b" {
		t.Errorf("control: got %q", got)
	}
}

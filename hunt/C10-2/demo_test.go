package liquid

import (
	"fmt"
	"testing"
)

// huntDemoDrop is an ordinary drop: ToLiquid has a value receiver, so *huntDemoDrop is a drop
// as well (Go promotes the method to the pointer type).
type huntDemoDrop struct{ v any }

func (d huntDemoDrop) ToLiquid() any { return d.v }

type huntDemoPage struct {
	Author *huntDemoDrop // optional: nil when the page has no author
}

// Property C10: a condition is falsy exactly when its value is nil or false, and
// `{% if c %}A{% else %}B{% endif %}` renders the first branch whose condition is truthy.
//
// A nil pointer is nil: for every other pointer type the library already treats a nil pointer
// as nil ({% if p %} with p = (*int)(nil) renders the else branch). But when the pointer's type
// happens to implement the drop interface through a value-receiver ToLiquid method,
// values.ToLiquid / values.ValueOf call ToLiquid on the nil pointer; Go panics ("value method
// ... called using nil pointer"), expression.Evaluate re-panics it, and the panic escapes
// Template.Render / Engine.ParseAndRender.
//
// Correct behaviour: every template below renders "B" (the value is nil, hence falsy), and no
// panic escapes the engine.
func TestHuntDemo(t *testing.T) {
	render := func(tpl string, b map[string]any) (out string) {
		defer func() {
			if r := recover(); r != nil {
				msg := fmt.Sprint(r)
				if len(msg) > 120 {
					msg = msg[:120] + "..."
				}
				out = "PANIC: " + msg
			}
		}()
		s, err := NewEngine().ParseAndRenderString(tpl, b)
		if err != nil {
			return "ERROR: " + err.Error()
		}
		return s
	}
	var nd *huntDemoDrop
	b := map[string]any{
		"d":    nd,
		"page": huntDemoPage{},
		"m":    map[string]any{"d": nd},
		"list": []*huntDemoDrop{nil},
	}
	// control: a non-nil pointer to a drop works and follows the drop's value
	if got := render("{% if d %}A{% else %}B{% endif %}", map[string]any{"d": &huntDemoDrop{false}}); got != "B" {
		t.Errorf("control: pointer to a drop of false rendered %q, want B", got)
	}
	for _, tpl := range []string{
		"{% if d %}A{% else %}B{% endif %}",
		"{% unless d %}B{% else %}A{% endunless %}",
		"{% if page.Author %}A{% else %}B{% endif %}",
		"{% if m.d %}A{% else %}B{% endif %}",
		"{% for x in list %}{% if x %}A{% else %}B{% endif %}{% endfor %}",
		"{% case d %}{% when nil %}B{% else %}A{% endcase %}",
		"{% if true %}B{% elsif d %}A{% endif %}{% comment %}d is not even needed here{% endcomment %}",
	} {
		if got := render(tpl, b); got != "B" {
			t.Errorf("%s with a nil *drop: got %q, want %q (a nil pointer is nil, so the condition is falsy)", tpl, got, "B")
		}
	}
}

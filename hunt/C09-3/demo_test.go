package liquid

import (
	"fmt"
	"math"
	"testing"
)

// Property C09: "==, !=, <, >, <=, >= compare integers and floats of any width by numeric value".
//
// When one operand is an integer and the other a float, values.Equal and values.Less convert
// both to float64 (values/compare.go, the reflect.Float32/Float64 case). An integer above 2^53 is
// rounded by that conversion, so it compares equal to a float with a different numeric value:
//
//	int64(MaxInt64) = 9223372036854775807   and  float64(2^63) = 9223372036854775808
//	int64(2^53 + 1) = 9007199254740993      and  float64(2^53) = 9007199254740992
//	uint64(MaxUint64) = 18446744073709551615 and float64(2^64) = 18446744073709551616
//
// are reported ==, and the integer is not < (resp. >) the float. A consequence visible with
// integers alone: MaxInt64 == f and MaxInt64-1 == f, yet MaxInt64 != MaxInt64-1.
// (compareInts in the same file already avoids the analogous lossy uint64 -> int64 conversion.)
//
// Correct behaviour: the comparison follows the exact numeric values: big == bigf is false,
// big < bigf is true, i53 > f53 is true, u64 < u64f is true.
func TestHuntDemo(t *testing.T) {
	render := func(src string, b map[string]any) (out string) {
		defer func() {
			if r := recover(); r != nil {
				out = fmt.Sprintf("PANIC: %v", r)
			}
		}()
		out, err := NewEngine().ParseAndRenderString(src, b)
		if err != nil {
			return "ERROR: " + err.Error()
		}
		return out
	}
	b := map[string]any{
		"big":  int64(math.MaxInt64),    // 2^63 - 1
		"bigf": float64(1 << 63),        // 2^63 exactly
		"i53":  int64(1<<53 + 1),        // 2^53 + 1
		"f53":  float64(1 << 53),        // 2^53 exactly
		"u64":  uint64(math.MaxUint64),  // 2^64 - 1
		"u64f": float64(math.MaxUint64), // rounds to 2^64 exactly
	}
	for _, c := range []struct{ expr, want string }{
		{"big == bigf", "false"},
		{"big != bigf", "true"},
		{"big < bigf", "true"},
		{"bigf > big", "true"},
		{"bigf <= big", "false"},
		{"i53 == f53", "false"},
		{"i53 > f53", "true"},
		{"f53 < i53", "true"},
		{"u64 == u64f", "false"},
		{"u64 < u64f", "true"},
	} {
		if got := render("{{ "+c.expr+" }}", b); got != c.want {
			t.Errorf("%s: got %q, want %q (the two numbers differ by one)", c.expr, got, c.want)
		}
	}
}

package liquid

import (
	"fmt"
	"testing"
)

// C08: "Whitespace, including newlines, between the parts of a tag or object never
// changes its meaning." The filter name, the colon and the arguments are separate
// parts of a pipeline (Ruby Liquid lexes ':' as its own token and accepts
// `x | append : y`). Here the expression scanner only recognises a filter-with-
// arguments when the colon touches the name (the ragel rule `identifier ':'` makes
// one KEYWORD token), so white space or a newline before the colon turns a valid
// pipeline into a syntax error. The same rule breaks `{% assign %}` values and the
// `limit :2` / `offset :1` modifiers of `{% for %}`.
//
// Correct behaviour: every spelling below renders exactly like the one without
// white space before the colon.
func TestHuntDemo(t *testing.T) {
	defer func() {
		if r := recover(); r != nil {
			t.Errorf("panic: %v", r)
		}
	}()
	engine := NewEngine()
	bindings := map[string]any{"x": "hi", "y": "Yo", "a": []int{10, 20, 30}}
	cases := []struct{ tight, spaced string }{
		{`{{ x | append: y }}`, `{{ x | append : y }}`},
		{`{{ x | append: y }}`, "{{ x | append\n: y }}"},
		{`{{ x | replace: "h", "j" | upcase }}`, `{{ x | replace : "h", "j" | upcase }}`},
		{`{% assign q = x | append: y %}{{ q }}`, `{% assign q = x | append : y %}{{ q }}`},
		{`{% for i in a limit: 2 %}{{ i }},{% endfor %}`, `{% for i in a limit : 2 %}{{ i }},{% endfor %}`},
	}
	for _, c := range cases {
		want, err := engine.ParseAndRenderString(c.tight, bindings)
		if err != nil {
			t.Fatalf("%q: unexpected error %v", c.tight, err)
		}
		got, err := engine.ParseAndRenderString(c.spaced, bindings)
		if err != nil {
			t.Errorf("%q: got error %q, want the same output as %q (%q)", c.spaced, fmt.Sprint(err), c.tight, want)
			continue
		}
		if got != want {
			t.Errorf("%q: got %q, want %q", c.spaced, got, want)
		}
	}
}

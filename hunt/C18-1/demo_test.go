package liquid

import (
	"fmt"
	"testing"
)

// huntDrop1 is a Drop: the README says it "acts as" its ToLiquid value.
type huntDrop1 struct{ v any }

func (d huntDrop1) ToLiquid() any { return d.v }

// Property C18: a Drop behaves everywhere as its ToLiquid value - also nested inside
// arrays and maps, and as filter input. The filters that format their input's elements
// (join, uniq, json, inspect) must therefore unwrap nested Drops first. join and uniq do;
// json and inspect hand the value straight to json.Marshal, which knows nothing of
// ToLiquid and prints the Go struct behind the Drop ("{}" here, its exported fields
// in general).
//
// Correct behaviour: both binding environments below describe the same Liquid values,
// so every template must render identically: [1,"x"] and {"k":1}.
func TestHuntDemo(t *testing.T) {
	render := func(tpl string, b map[string]any) (out string) {
		defer func() {
			if r := recover(); r != nil {
				out = fmt.Sprintf("PANIC: %v", r)
			}
		}()
		s, err := NewEngine().ParseAndRenderString(tpl, b)
		if err != nil {
			return "ERROR: " + err.Error()
		}
		return s
	}
	plain := map[string]any{
		"a": []any{1, "x"},
		"m": map[string]any{"k": 1},
	}
	drops := map[string]any{
		"a": []any{huntDrop1{1}, huntDrop1{"x"}},
		"m": map[string]any{"k": huntDrop1{1}},
	}
	for _, tpl := range []string{
		`{{ a | json }}`,
		`{{ a | inspect }}`,
		`{{ m | json }}`,
		`{{ m | inspect }}`,
		`{{ a | join: "," }}`, // control: join already unwraps
	} {
		want, got := render(tpl, plain), render(tpl, drops)
		if want != got {
			t.Errorf("%s: plain values render %q, the same values wrapped in Drops render %q", tpl, want, got)
		}
	}
}

package liquid

import (
	"fmt"
	"math"
	"testing"
)

// C16: truncate and slice "never lengthen a string that already fits".
//
// A length that is larger than any string can be -- a uint64 binding above
// MaxInt64, or a float such as 100000000000000000000.0 written in the template --
// is converted to the filter's int parameter with a plain Go conversion that
// wraps around (uint64 max -> -1, 1e20 -> MinInt64). truncate then sees a
// negative length and replaces the whole two-character string by the
// three-character ellipsis; slice sees a negative length and returns "".
//
// Correct behaviour: "ab" has 2 characters, which is fewer than the requested
// length, so truncate must return "ab" unchanged and slice: 0, <huge> must
// return the whole string (or the render must fail with a conversion error;
// it must not silently produce a different, longer string).
func TestHuntDemo(t *testing.T) {
	render := func(tpl string, b map[string]any) (out string, err error) {
		defer func() {
			if r := recover(); r != nil {
				err = fmt.Errorf("panic: %v", r)
			}
		}()
		return NewEngine().ParseAndRenderString(tpl, b)
	}
	b := map[string]any{"s": "ab", "n": uint64(math.MaxUint64)}
	for _, c := range []struct{ tpl, want string }{
		{`{{ s | truncate: n }}`, "ab"},
		{`{{ s | truncate: 100000000000000000000.0 }}`, "ab"},
		{`{{ s | slice: 0, n }}`, "ab"},
		{`{{ s | slice: 0, 100000000000000000000.0 }}`, "ab"},
	} {
		out, err := render(c.tpl, b)
		if err != nil {
			// refusing the oversized number is acceptable; a wrong string is not
			t.Logf("%s: error %v (acceptable)", c.tpl, err)
			continue
		}
		if out != c.want {
			t.Errorf("%s with s=\"ab\" (n = uint64(MaxUint64) where used): got %q, want %q (the string already fits)", c.tpl, out, c.want)
		}
	}
}

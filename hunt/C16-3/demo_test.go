package liquid

import (
	"fmt"
	"testing"
)

// C16: size counts characters rather than bytes.
//
// The size filter does (values.Length counts runes), but the equally
// documented property form s.size -- which Liquid defines as the same thing --
// returns the number of BYTES of the string, so the two disagree on every
// string that has a non-ASCII character:
//
//	{{ "héllo" | size }} -> 5      {{ "héllo".size }} -> 6
//	{{ s | size }}       -> 2      {{ s.size }}       -> 6   (s = "é𐐨")
//
// Correct behaviour: s.size == (s | size) == the number of characters.
func TestHuntDemo(t *testing.T) {
	render := func(tpl string, b map[string]any) (out string, err error) {
		defer func() {
			if r := recover(); r != nil {
				err = fmt.Errorf("panic: %v", r)
			}
		}()
		return NewEngine().ParseAndRenderString(tpl, b)
	}
	type named string
	for _, c := range []struct {
		tpl  string
		b    map[string]any
		want string
	}{
		{`{{ "héllo" | size }}`, nil, "5"}, // passes
		{`{{ "héllo".size }}`, nil, "5"},
		{`{{ s.size }}`, map[string]any{"s": "é𐐨"}, "2"},
		{`{{ s.size }}`, map[string]any{"s": named("日本語")}, "3"},
		{`{% if s.size == 2 %}two{% else %}not two{% endif %}`, map[string]any{"s": "éé"}, "two"},
	} {
		out, err := render(c.tpl, c.b)
		if err != nil {
			t.Errorf("%s: unexpected error %v", c.tpl, err)
			continue
		}
		if out != c.want {
			t.Errorf("%s (bindings %v): got %q, want %q (characters, not bytes)", c.tpl, c.b, out, c.want)
		}
	}
}

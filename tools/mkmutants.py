#!/usr/bin/env python3
"""Generate /verif/selftest/mutants/own-*: hand-written seeded faults (DESIGN.md appendix A). Each is an edit of
/repo's current tree that must still compile; the rule named must report it. Edits that no longer match are skipped."""
import json, os, shutil, subprocess, sys, tempfile
M = []
def mut(name, props, rules, edits, note=''):
    M.append((name, props, rules, edits, note))

mut('m3-memoise-if', ['C04','C03','C02'], ['M3'], [('tags/control_flow_tags.go',
 '''		return func(w io.Writer, ctx render.Context) error {
			for _, b := range branches {
				value, err := ctx.Evaluate(b.test)''',
 '''		var last any
		return func(w io.Writer, ctx render.Context) error {
			for _, b := range branches {
				value, err := ctx.Evaluate(b.test)
				last = value
				_ = last''')])
mut('m4-global-counter', ['C04','C02','C03'], ['M4'], [('filters/standard_filters.go',
 '''func joinFilter(a []any, sep func(string) string) any {''',
 '''var joinCalls int

func joinFilter(a []any, sep func(string) string) any {
	joinCalls++''')])
mut('m5-node-cache', ['C04','C03','C02'], ['M5'], [('render/render.go',
 '''	value, err := ctx.Evaluate(n.expr)
	if err != nil {
		return wrapRenderError(err, n)
	}''',
 '''	value, err := ctx.Evaluate(n.expr)
	if err != nil {
		return wrapRenderError(err, n)
	}
	n.Args = ""''')])
mut('m5-lazy-filter-alias', ['C04'], ['M5'], [('expressions/filters.go',
 '''	filter, ok := ctx.filters[name]
	if !ok {
		panic(UndefinedFilter(name))
	}''',
 '''	filter, ok := ctx.filters[name]
	if !ok {
		panic(UndefinedFilter(name))
	}
	ctx.filters["last_used"] = filter''')])
mut('m7-config-at-parse', ['C04'], ['M7'], [('template.go',
 '''	loc := parser.SourceLoc{Pathname: path, LineNo: line}''',
 '''	loc := parser.SourceLoc{Pathname: path, LineNo: line}
	cfg.AddTag("noop", nil)''')])
mut('m1-sort-in-place', ['C03','C15'], ['M1'], [('filters/sort_filters.go',
 '''	result := make([]any, len(array))
	copy(result, array)
	if key == nil {''',
 '''	result := array
	if key == nil {''')])
mut('m1-reverse-in-place', ['C03','C15'], ['M1'], [('filters/standard_filters.go',
 '''	result := make([]any, len(a))
	for i, x := range a {
		result[len(result)-1-i] = x
	}
	return result''',
 '''	for i, j := 0, len(a)-1; i < j; i, j = i+1, j-1 {
		a[i], a[j] = a[j], a[i]
	}
	return a''')])
mut('m1-concat-append', ['C03','C15'], ['M1'], [('filters/standard_filters.go',
 '''		result = make([]any, 0, len(a)+len(b))
		return append(append(result, a...), b...)''',
 '''		return append(a, b...)''')])
mut('m2-no-copy', ['C03','C12'], ['M2'], [('render/node_context.go',
 '''	return nodeContext{vars, c}''',
 '''	_ = vars
	return nodeContext{scope, c}''')])
mut('m2-tag-writes-binding', ['C03'], ['M2'], [('tags/standard_tags.go',
 '''		ctx.Set(varname, s)
		return nil''',
 '''		ctx.Set(varname, s)
		if m, ok := ctx.Get("page").(map[string]any); ok {
			m[varname] = s
		}
		return nil''')])
mut('d1-parenttags-unsorted', ['C02'], ['D1'], [('render/blocks.go',
 '''	sort.Strings(parents)
	return''', '''	return'''), ('render/blocks.go', '''	"io"
	"sort"
''', '''	"io"
''')])
mut('d2-default-now', ['C02'], ['D2'], [('filters/standard_filters.go',
 '''		if value == nil || value == false || values.IsEmpty(value) {
			value = defaultValue
		}''',
 '''		if value == nil || value == false || values.IsEmpty(value) {
			value = defaultValue
		}
		if value == nil {
			value = time.Now()
		}''')])
mut('p1-lost-filtererror-arm', ['C01'], ['P1'], [('expressions/expressions.go',
 '''			case FilterError:
				err = e
''', '''''')])
mut('p1-mustconvert-wraps', ['C01','C17'], ['P1'], [('values/convert.go',
 '''	out, err := Convert(value, t)
	if err != nil {
		panic(err)
	}''',
 '''	out, err := Convert(value, t)
	if err != nil {
		panic(fmt.Errorf("convert: %w", err))
	}''')])
mut('e4-text-ignores-error', ['C20'], ['E4'], [('render/render.go',
 '''	_, err := io.WriteString(w, n.Source)
	return wrapRenderError(err, n)''',
 '''	_, _ = io.WriteString(w, n.Source)
	return nil''')])
mut('e4-include-drops-error', ['C20','C14'], ['E4'], [('tags/include_tag.go',
 '''		_, err = io.WriteString(w, s)
		return err''',
 '''		_, _ = io.WriteString(w, s)
		return nil''')])
mut('e1-object-wrong-location', ['C07'], ['E1'], [('render/render.go',
 '''		return wrapRenderError(errors.New("undefined variable"), n)''',
 '''		return wrapRenderError(errors.New("undefined variable"), invalidLoc)''')])
mut('e2-output-with-error', ['C07'], ['E2'], [('template.go',
 '''	if err != nil {
		return nil, err
	}
	return buf.Bytes(), nil''',
 '''	if err != nil {
		return buf.Bytes(), err
	}
	return buf.Bytes(), nil''')])
mut('e3-cause-dropped', ['C07','C11'], ['E3'], [('parser/error.go',
 '''	re := Errorf(loc, "%s", err)
	re.cause = err
	return re''',
 '''	re := Errorf(loc, "%s", err)
	return re''')])
mut('g1-clause-before-parent-check', ['C06'], ['G1'], [('parser/parser.go',
 '''				case cs.RequiresParent() && (sd == nil || !cs.CanHaveParent(sd)):''',
 '''				case cs.IsBlockEnd() && (sd == nil || !cs.CanHaveParent(sd)):''')])
mut('g2-unterminated-accepted', ['C06'], ['G2'], [('parser/parser.go',
 '''	if bn != nil {
		return nil, Errorf(bn, "unterminated %q block", bn.Name)
	}
''', '''''')])
mut('b1-if-continues', ['C10'], ['B1'], [('tags/control_flow_tags.go',
 '''				if value != nil && value != false {
					return ctx.RenderBlock(w, b.body)
				}''',
 '''				if value != nil && value != false {
					if err := ctx.RenderBlock(w, b.body); err != nil {
						return err
					}
				}''')])
mut('b2-case-raw-equal', ['C10'], ['B2'], [('tags/control_flow_tags.go',
 '''		if values.Equal(caseValue, whenValue) {''',
 '''		if caseValue == whenValue {'''), ('tags/control_flow_tags.go', '''	"github.com/osteele/liquid/values"
''', '''''')])
mut('b3-else-false', ['C10'], ['B3'], [('tags/control_flow_tags.go',
 '''			test := e.Constant(true)''', '''			test := e.Constant(c.Name == "else")''')])
mut('b4-limit-before-offset', ['C11'], ['B4'], [('tags/iteration_tags.go',
 '''		if offset > 0 {
			iter = offsetWrapper{iter, offset}
		}
	}
''',
 '''		_ = offset
	}
'''), ('tags/iteration_tags.go',
 '''		if limit >= 0 {
			iter = limitWrapper{iter, limit}
		}
	}
''',
 '''		if limit >= 0 {
			iter = limitWrapper{iter, limit}
		}
	}
	if loop.Offset != nil {
		if val, err := ctx.Evaluate(loop.Offset); err == nil {
			if offset, ok := val.(int); ok && offset > 0 {
				iter = offsetWrapper{iter, offset}
			}
		}
	}
''')])
mut('b6-break-propagates', ['C11'], ['B6'], [('tags/iteration_tags.go',
 '''		case err.Cause() == errLoopBreak:
			break loop''',
 '''		case err.Cause() == errLoopBreak:
			return err''')])
mut('b7-no-restore', ['C12','C03'], ['B7'], [('tags/iteration_tags.go',
 '''	defer func(index, forloop any) {
		ctx.Set(forloopVarName, index)
		ctx.Set(loop.Variable, forloop)
	}(ctx.Get(forloopVarName), ctx.Get(loop.Variable))''',
 '''	defer func(index, forloop any) {
		ctx.Set(forloopVarName, index)
		ctx.Set(loop.Variable, index)
	}(ctx.Get(forloopVarName), ctx.Get(loop.Variable))''')])
mut('b8-capture-echoes', ['C12'], ['B8'], [('tags/standard_tags.go',
 '''		ctx.Set(varname, s)
		return nil''',
 '''		ctx.Set(varname, s)
		_, err = io.WriteString(w, "")
		return err''')])
mut('b9-cache-first', ['C14'], ['B9'], [('render/context.go',
 '''	source, err := os.ReadFile(filename)
	if err != nil && os.IsNotExist(err) {
		// Is it cached?
		if cval, ok := c.ctx.config.Cache[filename]; ok {
			source = cval
		} else {
			return "", err
		}
	} else if err != nil {
		return "", err
	}''',
 '''	source, ok := c.ctx.config.Cache[filename]
	if !ok {
		var err error
		source, err = os.ReadFile(filename)
		if err != nil {
			return "", err
		}
	}''')])
mut('b9-join-dot', ['C14'], ['B9'], [('tags/include_tag.go',
 '''		filename := filepath.Join(filepath.Dir(ctx.SourceFile()), rel)''',
 '''		filename := filepath.Join(".", rel)''')])
mut('b10-rindex-off-by-one', ['C11'], ['B10'], [('tags/iteration_tags.go',
 '''			"rindex0": l - i - 1,''', '''			"rindex0": l - i,''')])
mut('b11-reverse-off-by-one', ['C11'], ['B11'], [('tags/iteration_tags.go',
 '''func (w reverseWrapper) Index(i int) any { return w.i.Index(w.i.Len() - 1 - i) }''',
 '''func (w reverseWrapper) Index(i int) any { return w.i.Index(w.i.Len() - i) }''')])
mut('t1-trimmed-source', ['C05'], ['T1'], [('parser/scanner.go',
 '''			tokens = append(tokens, Token{Type: TextTokenType, SourceLoc: loc, Source: data[p:ts]})''',
 '''			tokens = append(tokens, Token{Type: TextTokenType, SourceLoc: loc, Source: strings.TrimRight(data[p:ts], "\\r")})''')])
mut('t2-escape-output', ['C05'], ['T2'], [('render/render.go',
 '''		_, err := io.WriteString(w, fmt.Sprint(value))
		return err''',
 '''		_, err := io.WriteString(w, strings.ToValidUTF8(fmt.Sprint(value), ""))
		return err'''), ('render/render.go', '''	"reflect"
	"time"
''', '''	"reflect"
	"strings"
	"time"
''')])
mut('t3-comment-parses', ['C05'], ['T3'], [('parser/parser.go',
 '''			if tok.Type == TagTokenType && tok.Name == "endcomment" {
				inComment = false
			}''',
 '''			if tok.Type == TagTokenType && tok.Name == "endcomment" {
				inComment = false
			} else if tok.Type == ObjTokenType {
				if _, err := expressions.Parse(tok.Args); err != nil {
					return nil, WrapError(err, tok)
				}
			}''')])
mut('t4-block-trims', ['C13','C05'], ['T4'], [('render/render.go',
 '''	err := renderer(w, rendererContext{ctx, nil, n})
	return wrapRenderError(err, n)''',
 '''	err := renderer(w, rendererContext{ctx, nil, n})
	w.TrimRight()
	return wrapRenderError(err, n)''')])
mut('t5-count-args', ['C05','C07','C19'], ['T5'], [('parser/scanner.go',
 '''		loc.LineNo += strings.Count(source, "\\n")
		p = te''',
 '''		loc.LineNo += strings.Count(data[m[0]:m[1]-1], "\\n")
		p = te''')])
mut('t9-trim-hyphen', ['C13','C05'], ['T9'], [('render/trimwriter.go',
 '''	_, err := tw.w.Write(bytes.TrimRightFunc(tw.buf.Bytes(), unicode.IsSpace))''',
 '''	_, err := tw.w.Write(bytes.TrimRight(tw.buf.Bytes(), " \\t\\n-"))''')])
mut('t9-flush-drops', ['C13','C05'], ['T9'], [('render/trimwriter.go',
 '''		n, err := tw.buf.WriteTo(tw.w)
		tw.buf.Reset()
		return int(n), err''',
 '''		n := tw.buf.Len()
		tw.buf.Reset()
		return n, nil''')])
mut('x1-ge-not-less', ['C09'], ['X1'], [('expressions/y.go',
 '''				return values.ValueOf(b.Less(a) || a.Equal(b))''',
 '''				return values.ValueOf(!a.Less(b))''')])
mut('x2-less-drops-int8', ['C09','C18'], ['X2'], [('values/compare.go',
 '''	case reflect.Bool:
		return !ra.Bool() && rb.Bool()
	case reflect.Int, reflect.Int8,''',
 '''	case reflect.Bool:
		return !ra.Bool() && rb.Bool()
	case reflect.Int,''')])
mut('x3-zero-is-falsy', ['C10','C09'], ['X3'], [('values/value.go',
 '''func (v wrapperValue) Test() bool                { return v.value != nil && v.value != false }''',
 '''func (v wrapperValue) Test() bool                { return v.value != false }''')])
mut('x5-arity-unchecked', ['C08'], ['X5'], [('values/call.go',
 '''	if len(args) > rt.NumIn() && !rt.IsVariadic() {
		return nil, &CallParityError{NumArgs: len(args), NumParams: rt.NumIn()}
	}''',
 '''	if len(args) > rt.NumIn() && !rt.IsVariadic() {
		args = args[:rt.NumIn()]
	}''')])
mut('f1-ceil-float', ['C17'], ['F1'], [('filters/standard_filters.go',
 '''	fd.AddFilter("ceil", func(a float64) int {
		return int(math.Ceil(a))
	})''',
 '''	fd.AddFilter("ceil", func(a float64) float64 {
		return math.Ceil(a)
	})''')])
mut('f2-truncate-bytes', ['C16'], ['F2'], [('filters/standard_filters.go',
 '''		ss, els := []rune(s), []rune(el)
		if len(ss) <= n {
			return s
		}''',
 '''		ss, els := []rune(s), []rune(el)
		if len(s) <= n {
			return s
		}''')])
mut('p3-include-unchecked', ['C01'], ['P3'], [('tags/include_tag.go',
 '''		rel, ok := value.(string)
		if !ok {
			return ctx.Errorf("include requires a string argument; got %v", value)
		}''',
 '''		rel := value.(string)''')])
mut('p10-tablerow-zero-cols', ['C01','C11'], ['P10'], [('tags/iteration_tags.go',
 '''			if cols > 0 {
				return tableRowDecorator(cols), nil
			}''',
 '''			if cols >= 0 {
				return tableRowDecorator(cols), nil
			}''')])

mut('x9-literal-keeps-closing-quote', ['C08'], ['X9'], [('expressions/scanner.go',
 '''					out.val = string(lex.data[lex.ts+1 : lex.te-1])''',
 '''					out.val = string(lex.data[lex.ts+1 : lex.te])''')])
mut('x9-identifier-lowercased', ['C08'], ['X9'], [('expressions/scanner.go',
 '''					tok = IDENTIFIER
					out.name = lex.token()''',
 '''					tok = IDENTIFIER
					out.name = strings.ToLower(lex.token())'''), ('expressions/scanner.go', '''import "strconv"''', '''import (
	"strconv"
	"strings"
)''')])

mut('b9v-include-shares-bindings', ['C12','C14'], ['B9v'], [('render/context.go',
 '''	bindings := map[string]any{}
	for k, v := range c.ctx.bindings {
		bindings[k] = v
	}
	for k, v := range b {''',
 '''	bindings := c.ctx.bindings
	for k, v := range b {''')], 'the included template assigns into the includer\'s variables')
mut('d3-fast-path-skips-parser', ['C02'], ['D3'], [('engine.go',
 '''	bs, err := e.ParseAndRender([]byte(source), b)
	if err != nil {
		return "", err
	}
	return string(bs), nil''',
 '''	if !strings.Contains(source, "{") {
		return source, nil
	}
	bs, err := e.ParseAndRender([]byte(source), b)
	if err != nil {
		return "", err
	}
	return string(bs), nil'''), ('engine.go', '''import (
''', '''import (
	"strings"
''')], 'an entry point answers without going through the common parse and render functions (wrong under custom delimiters)')
mut('g4-empty-clause-skipped', ['C06','C10'], ['G4'], [('render/compiler.go',
 '''	for _, child := range blocks {
		compiled, err := c.compileNode(child)''',
 '''	for _, child := range blocks {
		if len(child.Body) == 0 {
			continue
		}
		compiled, err := c.compileNode(child)''')], 'an empty elsif/when clause is dropped at compile time, so a later clause is taken instead')
mut('m6-read-before-once', ['C04','C18'], ['M6'], [('values/drop.go',
 '''func (w *dropWrapper) Test() bool                  { return w.Resolve().Test() }''',
 '''func (w *dropWrapper) Test() bool                  { return w.v != nil && w.v.Test() }''')], 'reads the lazily resolved field without passing through Once.Do')
mut('p11-new-node-kind-without-arm', ['C01','C06'], ['P11'], [('parser/parser.go',
 '''			case tok.Name == "raw":''',
 '''			case tok.Name == "noop":
				*ap = append(*ap, &ASTNoop{Token: tok})
			case tok.Name == "raw":'''), ('parser/ast.go', '''// ASTText is a text span''', '''// ASTNoop is a tag that renders nothing.
type ASTNoop struct {
	Token
}

// ASTText is a text span''')], 'a node kind the compiler switch does not list: compileNode panics on it')
mut('t10-trim-right-before-token', ['C13'], ['T10'], [('parser/scanner.go',
 '''			tokens = append(tokens, tok)
			if source[len(source)-len(delims[3])-1] == '-' {
				tokens = append(tokens, Token{
					Type: TrimRightTokenType,
				})
			}''',
 '''			if source[len(source)-len(delims[3])-1] == '-' {
				tokens = append(tokens, Token{
					Type: TrimRightTokenType,
				})
			}
			tokens = append(tokens, tok)''')], 'the right-trim marker of a tag is emitted before the tag')
mut('x6-block-lookup-unchecked', ['C08'], ['X6'], [('render/compiler.go',
 '''		cd, ok := c.findBlockDef(n.Name)
		if !ok {
			return nil, parser.Errorf(n, "undefined tag %q", n.Name)
		}''',
 '''		cd, _ := c.findBlockDef(n.Name)''')], 'registry lookup result used without its ok flag')
mut('x7-map-wrapper-under-ptr', ['C18','C08'], ['X7'], [('values/value.go',
 '''		if rv.Type().Elem().Kind() == reflect.Struct {
			return structValue{wrapperValue{value}}
		}''',
 '''		if rv.Type().Elem().Kind() == reflect.Struct {
			return structValue{wrapperValue{value}}
		}
		if rv.Type().Elem().Kind() == reflect.Map {
			return mapValue{wrapperValue{value}}
		}''')], 'a map wrapper is built around a pointer: its reflect accessors panic')

mut('t6-exclusion-from-object-right', ['C19'], ['T6'], [('parser/scanner.go',
 '''	tagRight := []rune(delims[3])''',
 '''	tagRight := []rune(delims[1])''')], 'what a tag may not contain is derived from the wrong delimiter')

mut('x12-strict-or', ['C08'], ['X12'], [('render/render.go',
 '''	if value == nil && ctx.config.StrictVariables {''',
 '''	if value == nil || ctx.config.StrictVariables {''')], 'strict mode makes every object an error')
mut('x12-strict-swallowed', ['C08'], ['X12'], [('render/render.go',
 '''		return wrapRenderError(errors.New("undefined variable"), n)
	}''',
 '''		return nil
	}'''), ('render/render.go', '''	"errors"
''', '')], 'an undefined variable in strict mode renders nothing instead of failing')

mut('m1-generic-helper', ['C03','C15'], ['M1'], [('filters/standard_filters.go',
 '''func reverseFilter(a []any) any {
	result := make([]any, len(a))
	for i, x := range a {
		result[len(result)-1-i] = x
	}
	return result
}''',
 '''func reverseFilter(a []any) any {
	reverseInPlace(a)
	return a
}

func reverseInPlace[T any](s []T) {
	for i, j := 0, len(s)-1; i < j; i, j = i+1, j-1 {
		s[i], s[j] = s[j], s[i]
	}
}''')], 'a generic helper of the module that writes its argument: instances are read as the generic')
mut('e10-buffered-block', ['C10','C11','C05'], ['E10'], [('render/context.go',
 '''	return c.ctx.RenderSequence(w, b.Body)''',
 '''	buf := new(bytes.Buffer)
	if err := c.ctx.RenderSequence(buf, b.Body); err != nil {
		return err
	}
	_, err := w.Write(buf.Bytes())
	return err''')], 'a branch rendered into a private buffer that is copied out only on success')
mut('g7-blank-text-dropped', ['C13','C05','C06'], ['G7'], [('parser/parser.go',
 '''		case tok.Type == TextTokenType:
			*ap = append(*ap, &ASTText{Token: tok})''',
 '''		case tok.Type == TextTokenType:
			if strings.TrimSpace(tok.Source) == "" && len(*ap) == 0 {
				continue
			}
			*ap = append(*ap, &ASTText{Token: tok})''')], 'a text token that leaves no node')
mut('x17-when-or-rewrite', ['C10','C08'], ['X17'], [('expressions/parser.go',
 '''	lex := newLexer([]byte(source + ";"))''',
 '''	lex := newLexer([]byte(strings.ReplaceAll(source, " or ", ", ") + ";"))'''), ('expressions/parser.go',
 '''import (
	"fmt"
''',
 '''import (
	"fmt"
	"strings"
''')], 'the source rewritten before lexing')
mut('f12-size-without-range', ['C15','C18'], ['F12'], [('values/arrays.go',
 '''	if r, ok := value.(Range); ok {
		return r.Len()
	}
''',
 '''''')], 'size answers 0 for a range again')
mut('p13-int-on-any-integer', ['C01'], ['P13'], [('values/value.go',
 '''	case rv.IsValid() && rv.CanInt() && int64(int(rv.Int())) == rv.Int():
		return int(rv.Int())''',
 '''	case rv.IsValid() && rv.Kind() != reflect.String && int64(int(rv.Int())) == rv.Int():
		return int(rv.Int())''')], 'reflect Int on a value that may be unsigned, a float, a bool')
mut('e11-flush-after-failure', ['C20'], ['E11'], [('render/render.go',
 '''	if err := node.render(&tw, newNodeContext(vars, c)); err != nil {
		return err
	}
	if _, err := tw.Flush(); err != nil {
		return wrapRenderError(err, invalidLoc)
	}
	return nil''',
 '''	err := node.render(&tw, newNodeContext(vars, c))
	if _, ferr := tw.Flush(); ferr != nil && err == nil {
		return wrapRenderError(ferr, invalidLoc)
	}
	return err''')], 'what was buffered is flushed although a node has failed')
mut('e11-raw-writes-on', ['C20'], ['E11', 'E8'], [('render/render.go',
 '''	for _, s := range n.slices {
		_, err := io.WriteString(w, s)
		if err != nil {
			return wrapRenderError(err, invalidLoc)
		}
	}
	return nil''',
 '''	var first error
	for _, s := range n.slices {
		if _, err := io.WriteString(w, s); err != nil && first == nil {
			first = err
		}
	}
	if first != nil {
		return wrapRenderError(first, invalidLoc)
	}
	return nil''')], 'the remaining raw slices are still written after a failed one')
mut('x18-empty-needle', ['C09'], ['X18'], [('expressions/builders.go',
 '''		return values.ValueOf(e1(ctx).Contains(e2(ctx)))''',
 '''		needle := e2(ctx)
		if s, ok := needle.Interface().(string); ok && s == "" {
			return values.ValueOf(true)
		}
		return values.ValueOf(e1(ctx).Contains(needle))''')], 'the empty string is contained in everything, arrays and maps included')
mut('x19-round-float-index', ['C08'], ['X19'], [('values/value.go',
 '''	case float64:
		n = int(ix)
	default:''',
 '''	case float64:
		n = int(ix + 0.5)
	default:''')], 'a fractional index is rounded instead of truncated')
mut('f13-round-to-even', ['C17'], ['F13'], [('filters/standard_filters.go',
 '''		return math.Floor(n*exp+0.5) / exp''',
 '''		return math.RoundToEven(n*exp) / exp''')], "banker's rounding")
mut('f14-fixed-float-text', ['C16'], ['F14'], [('values/convert.go',
 '''		case []byte:
			return string(value), nil
		case fmt.Stringer:''',
 '''		case float64:
			return strconv.FormatFloat(value, 'f', -1, 64), nil
		case []byte:
			return string(value), nil
		case fmt.Stringer:''')], 'a float argument of a string filter never uses the exponent form that printing uses')
mut('x7-nil-struct-pointer', ['C10', 'C09'], ['X7'], [('values/value.go',
 '''		if rv.IsNil() {
			return nilValue
		}
		if rv.Type().Elem().Kind() == reflect.Struct {''',
 '''		if rv.IsNil() && rv.Type().Elem().Kind() != reflect.Struct {
			return nilValue
		}
		if rv.Type().Elem().Kind() == reflect.Struct {''')], 'a nil pointer to a struct stays a struct value: truthy')
mut('p15-yaml-elem-unchecked', ['C01'], ['P15'], [('values/convert.go',
 '''				if !ev.Type().ConvertibleTo(et) {
					return nil, conversionError("slice element", ev, et)
				}
				result = reflect.Append(result, ev.Convert(et))''',
 '''				result = reflect.Append(result, ev.Convert(et))''')], 'an element of a YAML map slice is converted without the test: Convert panics on {a: [1]} to []int')
mut('p15-mapkey-oneway', ['C01'], ['P15'], [('values/value.go',
 '''	case it.ConvertibleTo(kt) && kt.ConvertibleTo(it):''',
 '''	case it.ConvertibleTo(kt):''')], 'the way back is no longer tested: a slice index converts to an array key type and not back')
mut('f14-float32-bits', ['C16'], ['F14'], [('values/convert.go',
 '''		case []byte:
			return string(value), nil
		case fmt.Stringer:''',
 '''		case float32:
			return strconv.FormatFloat(float64(value), 'g', -1, 64), nil
		case []byte:
			return string(value), nil
		case fmt.Stringer:''')], 'a float32 argument of a string filter reads 0.10000000149011612 where printing gives 0.1')
mut('p16-nil-to-interface', ['C01'], ['P16'], [('values/convert.go',
 '''	switch typ.Kind() {
	case reflect.Bool:
		return !(value == nil || value == false), nil''',
 '''	switch typ.Kind() {
	case reflect.Interface:
		if value == nil {
			return nil, nil
		}
	case reflect.Bool:
		return !(value == nil || value == false), nil''')], 'Convert succeeds with nil for a nil to an interface type: its callers append reflect.ValueOf(nil)')
mut('x2-helper-default-too-wide', ['C09'], ['X2'], [('values/compare.go',
 '''func isIntKind(k reflect.Kind) bool {
	switch k {
	case reflect.Int, reflect.Int8, reflect.Int16, reflect.Int32, reflect.Int64,
		reflect.Uint, reflect.Uint8, reflect.Uint16, reflect.Uint32, reflect.Uint64:''',
 '''func isIntKind(k reflect.Kind) bool {
	switch k {
	case reflect.Int, reflect.Int8, reflect.Int16, reflect.Int32, reflect.Int64,
		reflect.Uint, reflect.Uint8, reflect.Uint32, reflect.Uint64:''')], 'uint16 is no longer an integer kind')
out = '/verif/selftest/mutants'
for d in os.listdir(out):
    if d.startswith('own-'):
        shutil.rmtree(os.path.join(out, d))
env = dict(os.environ, GOFLAGS='-mod=mod', GOPROXY='off', GOSUMDB='off', GOTOOLCHAIN='local'); env.pop('GOWORK', None)
kept = 0
for name, props, rules, edits, note in M:
    scratch = tempfile.mkdtemp(prefix='lvmk-', dir='/tmp'); os.rmdir(scratch)
    subprocess.check_call(['git', '-C', '/repo', 'worktree', 'add', '-q', '--detach', scratch, 'HEAD'])
    try:
        ok = True
        for f, old, new in edits:
            p = os.path.join(scratch, f)
            s = open(p).read()
            if s.count(old) != 1:
                print('SKIP', name, ': anchor not found (%d) in %s' % (s.count(old), f)); ok = False; break
            open(p, 'w').write(s.replace(old, new))
        if not ok:
            continue
        b = subprocess.run(['go', 'build', './...'], cwd=scratch, env=env, capture_output=True, text=True)
        if b.returncode != 0:
            print('SKIP', name, ': does not build:', b.stderr.strip().splitlines()[:3]); continue
        patch = subprocess.check_output(['git', '-C', scratch, 'diff'], text=True)
        d = os.path.join(out, 'own-' + name)
        os.makedirs(d)
        open(os.path.join(d, 'patch.diff'), 'w').write(patch)
        json.dump({'kind': 'hand-written seeded fault (DESIGN appendix A)', 'properties': props, 'rules': rules, 'note': note}, open(os.path.join(d, 'expect.json'), 'w'), indent=1)
        kept += 1
    finally:
        subprocess.call(['git', '-C', '/repo', 'worktree', 'remove', '--force', scratch])
print(kept, 'own mutants of', len(M))

#!/usr/bin/env python3
"""refaccheck.py <dir-with-patch.diff> : apply a behaviour-preserving refactoring to a scratch copy of /repo and run
every property check against it. Any VIOLATION is a false alarm of the checker (or the refactoring is not benign)."""
import json, os, re, shutil, subprocess, sys, tempfile
ENV = dict(os.environ, GOFLAGS='-mod=mod', GOPROXY='off', GOSUMDB='off', GOTOOLCHAIN='local'); ENV.pop('GOWORK', None)
d = os.path.abspath(sys.argv[1])
scratch = tempfile.mkdtemp(prefix='lvref-', dir='/tmp')
repo = os.path.join(scratch, 'repo')
res = {'dir': d, 'alarms': {}}
try:
    subprocess.check_call(['cp', '-a', '/repo', repo])
    p = subprocess.run(['git', 'apply', '--whitespace=nowarn', os.path.join(d, 'patch.diff')], cwd=repo, capture_output=True, text=True)
    if p.returncode != 0:
        res['error'] = 'patch does not apply: ' + p.stderr[-300:]
    else:
        b = subprocess.run(['go', 'build', './...'], cwd=repo, env=ENV, capture_output=True, text=True)
        res['builds'] = b.returncode == 0
        if len(sys.argv) > 2 and sys.argv[2] == '--tests':
            t = subprocess.run(['go', 'test', '-count=1', './...'], cwd=repo, env=ENV, capture_output=True, text=True)
            res['tests_pass'] = t.returncode == 0
        env = dict(ENV, LV_REPO=repo)
        for i in range(1, 21):
            pid = 'C%02d' % i
            o = subprocess.run(['/verif/bin/lv', 'check', pid, '--no-write'], env=env, capture_output=True, text=True)
            if o.returncode != 0:
                res['alarms'][pid] = re.findall(r'^rule (\S+ violated at .*)$', o.stdout, re.M)[:8] or [o.stdout[-300:]]
finally:
    shutil.rmtree(scratch, ignore_errors=True)
print(json.dumps(res, indent=1))

#!/usr/bin/env python3
"""seedrefresh.py [seed-id ...]: re-run every property check against every stored seeded change (patch applied to a
scratch copy of /repo's working tree) and rewrite the "lv", "expected" and "also_properties" fields of meta.json.
A change that its own property's check does not report must carry "why_not_detected"; the tool lists those that do not."""
import json, os, re, shutil, subprocess, sys, tempfile
from concurrent.futures import ThreadPoolExecutor
ENV = dict(os.environ, GOFLAGS='-mod=mod', GOPROXY='off', GOSUMDB='off', GOTOOLCHAIN='local'); ENV.pop('GOWORK', None)
ids = sys.argv[1:] or sorted(os.listdir('/verif/seeded'))
PROPS = ['C%02d' % i for i in range(1, 21)]


def one(sid):
    d = os.path.join('/verif/seeded', sid)
    m = json.load(open(os.path.join(d, 'meta.json')))
    scratch = tempfile.mkdtemp(prefix='lvsr-', dir='/tmp')
    repo = os.path.join(scratch, 'repo')
    try:
        subprocess.check_call(['cp', '-a', '/repo', repo])
        p = subprocess.run(['git', 'apply', '--whitespace=nowarn', os.path.join(d, 'patch.diff')], cwd=repo, capture_output=True, text=True)
        if p.returncode != 0:
            return sid, m, 'patch no longer applies: ' + p.stderr.strip()[:200]
        env = dict(ENV, LV_REPO=repo)
        res = {}
        for pid in PROPS:
            o = subprocess.run(['/verif/bin/lv', 'check', pid, '--no-write'], env=env, capture_output=True, text=True)
            rules = sorted(set(re.findall(r'^rule (\S+) violated', o.stdout, re.M)))
            res[pid] = {'exit': o.returncode, 'rules': rules}
        own = res[m['property']]
        m['lv'] = {'own_property_check': own, 'other_properties_alarmed': {k: v['rules'] for k, v in res.items() if v['exit'] == 1 and k != m['property']}}
        m['expected'] = 'detected' if own['exit'] == 1 else 'not-detected'
        m['also_properties'] = sorted(m['lv']['other_properties_alarmed'])
        if own['exit'] == 1:
            m.pop('why_not_detected', None)
        json.dump(m, open(os.path.join(d, 'meta.json'), 'w'), indent=1)
        return sid, m, None
    finally:
        shutil.rmtree(scratch, ignore_errors=True)


with ThreadPoolExecutor(8) as ex:
    out = list(ex.map(one, ids))
nd = 0
for sid, m, err in out:
    if err:
        print('%-7s ERROR %s' % (sid, err)); continue
    own = m['lv']['own_property_check']
    flag = ''
    if own['exit'] != 1:
        nd += 1
        flag = 'why recorded' if m.get('why_not_detected') else 'NEEDS why_not_detected'
    print('%-7s %-12s %-16s also=%s %s' % (sid, m['expected'], ','.join(own['rules']), ','.join('%s(%s)' % (k, '/'.join(v)) for k, v in m['lv']['other_properties_alarmed'].items()), flag))
print('%d changes, %d reported by their own property' % (len(out), len(out) - nd))

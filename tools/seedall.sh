#!/bin/sh
# seedall.sh <dir>: run seedcheck for every <dir>/C??/[AB] that has meta.json + patch.diff and no result.json yet (5 at a time)
D=${1:-/tmp/seed}
ls -d $D/C??/[AB] 2>/dev/null | while read d; do
  [ -f "$d/meta.json" ] && [ -f "$d/patch.diff" ] && [ ! -f "$d/result.json" ] && echo "$d"
done | xargs -P 5 -I{} sh -c '/verif/tools/seedcheck.py {} --props all > {}/result.json 2>{}/result.err'

#!/bin/sh
# run seedcheck for every /tmp/seed/C??/[AB] that has meta.json and no result.json yet (4 at a time)
ls -d /tmp/seed/C??/[AB] 2>/dev/null | while read d; do
  [ -f "$d/meta.json" ] && [ -f "$d/patch.diff" ] && [ ! -f "$d/result.json" ] && echo "$d"
done | xargs -P 4 -I{} sh -c '/verif/tools/seedcheck.py {} --props all > {}/result.json 2>{}/result.err'

#!/usr/bin/env python3
"""seedstore.py <delivered-dir> <seed-id>: keep a confirmed seeded change as /verif/seeded/<seed-id>/.
<delivered-dir> holds patch.diff, demo_test.go, meta.json (from the sub-agent) and result.json (from seedcheck.py).
Refuses changes that seedcheck did not confirm."""
import json, os, shutil, sys
src, sid = sys.argv[1], sys.argv[2]
r = json.load(open(os.path.join(src, 'result.json')))
m = json.load(open(os.path.join(src, 'meta.json')))
conf = {'by': 'tools/seedcheck.py in a scratch worktree of /repo HEAD',
        'demo_passes_on_clean_tree': r.get('demo_clean_pass'), 'builds': r.get('builds'), 'vet_clean': r.get('vets'),
        'existing_suite_passes': r.get('suite_passes'), 'demo_fails_with_patch': r.get('demo_patched_fails')}
if not all(conf[k] for k in conf if k != 'by'):
    print('NOT CONFIRMED', sid, conf)
    sys.exit(1)
dst = os.path.join('/verif/seeded', sid)
os.makedirs(dst, exist_ok=True)
for f in ('patch.diff', 'demo_test.go'):
    shutil.copy(os.path.join(src, f), os.path.join(dst, f))
m['confirmed'] = conf
m['round'] = int(sys.argv[3]) if len(sys.argv) > 3 else 2
m['ran'] = 'tools/seedcheck.py <dir> --props all: scratch worktree of /repo HEAD; demo on clean tree, git apply patch.diff, go build/vet/test ./..., demo with patch, then LV_REPO=<scratch> bin/lv check <each property> --no-write'
json.dump(m, open(os.path.join(dst, 'meta.json'), 'w'), indent=1)
print('stored', sid)

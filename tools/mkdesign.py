#!/usr/bin/env python3
"""mkdesign.py: assemble /verif/DESIGN.md from doc/*.md and from tables generated out of the checker and the
records kept under /verif (bin/lv describe, a dry run of every check for the obligation counts,
KNOWN_FINDINGS.txt, tools/fixed_notes.json, seeded/*/meta.json, selftest/)."""
import glob, json, os, re, subprocess, sys

V = '/verif'
os.chdir(V)


def sh(*cmd):
    return subprocess.run(cmd, capture_output=True, text=True).stdout


desc = json.loads(sh('bin/lv', 'describe'))
rules = desc['rules']
props = {p['id']: p for p in desc['properties']}
titles = {}
for l in open('properties.jsonl'):
    p = json.loads(l)
    titles[p['id']] = p['title']

# obligation counts per rule, from a dry run of every check
counts = {}
prop_line = {}
for pid in sorted(props):
    out = sh('bin/lv', 'check', pid, '--no-write')
    for m in re.finditer(r'^\s+rule (\S+)\s+(\d+) obligations, (\d+) violated', out, re.M):
        counts[m.group(1)] = (int(m.group(2)), int(m.group(3)))
    m = re.search(r'^lv check %s: (.*)$' % pid, out, re.M)
    prop_line[pid] = re.sub(r', [0-9.]+s$', '', m.group(1)) if m else '?'

used_by = {}
for pid, p in props.items():
    for r in p['rules']:
        used_by.setdefault(r, []).append(pid)


def rulekey(r):
    m = re.match(r'([A-Z]+)(\d+)(.*)', r)
    return (m.group(1), int(m.group(2)), m.group(3))


rt = ['| rule | obligations today | used by | what it requires |', '|---|---|---|---|']
for r in sorted(rules, key=rulekey):
    c = counts.get(r, ('-', 0))
    viol = '' if not c[1] else ' (%d known findings)' % c[1]
    rt.append('| %s | %s%s | %s | %s |' % (r, c[0], viol, ' '.join(sorted(used_by.get(r, []))), rules[r].replace('|', '\\|')))
RULETABLE = '\n'.join(rt)

# seeded changes
seeds = []
for d in sorted(glob.glob('seeded/*/meta.json')):
    m = json.load(open(d))
    m['_id'] = os.path.basename(os.path.dirname(d))
    seeds.append(m)
st = ['| change | breaks | what was changed | needs, to manifest | own check | fired | also |', '|---|---|---|---|---|---|---|']
misses = []


def short(s, n):
    s = ' '.join(s.split()).replace('|', '\\|')
    return s if len(s) <= n else s[:n - 1].rsplit(' ', 1)[0] + ' …'


for m in seeds:
    lv = m.get('lv', {})
    own = lv.get('own_property_check', {})
    det = m.get('expected') == 'detected'
    also = lv.get('other_properties_alarmed', {}) or {}
    st.append('| %s | %s | %s | %s | %s | %s | %s |' % (
        m['_id'], m['property'], short(m.get('summary', ''), 260), short(m.get('needs', ''), 200),
        'VIOLATION' if det else 'silent', ' '.join(own.get('rules', [])) or '-',
        ' '.join('%s(%s)' % (k, ','.join(v)) for k, v in sorted(also.items())) or '-'))
    if not det:
        misses.append('* **%s** (%s) — %s  \n  *Why no rule:* %s' % (m['_id'], m['property'], short(m.get('summary', ''), 400), m.get('why_not_detected', '(not recorded)')))
SEEDTABLE = '\n'.join(st)
ndet = sum(1 for m in seeds if m.get('expected') == 'detected')
SEEDTABLE += '\n\n%d changes, %d reported by the check of the property they break, %d not (8.3).' % (len(seeds), ndet, len(seeds) - ndet)
MISSES = '\n'.join(misses) if misses else '(none)'

# findings
kf = open('KNOWN_FINDINGS.txt').read().splitlines()
findings = [l for l in kf if l.startswith('finding:')]
fixed = [l for l in kf if l.startswith('fixed:')]
notes = json.load(open('tools/fixed_notes.json'))
log = sh('git', '-C', '/repo', 'log', '--reverse', '--format=%h %s').splitlines()
fx = []
n = 0
for l in log:
    h, subj = l.split(' ', 1)
    if not subj.startswith('fix:'):
        continue
    n += 1
    ents = notes.get(subj, [])
    fx.append('%d. `%s` **%s**' % (n, h, subj[5:]))
    for pid, what in ents:
        fx.append('   * %s — %s' % (pid, what))
FIXES = '\n'.join(fx)
FINDINGS = '\n'.join('* `%s`' % l for l in findings)

# per property
pp = []
for pid in sorted(props):
    p = props[pid]
    expl = p['explanation']
    dec, _, notdec = expl.partition('NOT decided:')
    pp.append('### %s — %s\n' % (pid, titles.get(pid, '')))
    pp.append('*Level* `other` (structural necessary conditions, decided statically for all inputs). *Rules:* %s.  ' % ', '.join('%s (%s)' % (r, counts.get(r, ('-',))[0]) for r in p['rules']))
    pp.append('*Today:* %s\n' % prop_line[pid])
    pp.append('**Decided.** ' + dec.strip().removeprefix('Decided').lstrip(' :').strip())
    if notdec:
        tail = notdec.strip()
        pp.append('\n**Not decided.** ' + tail)
    mine = [m for m in seeds if m['property'] == pid]
    if mine:
        pp.append('\n*Seeded changes:* ' + '; '.join('%s → %s' % (m['_id'], (' '.join(m.get('lv', {}).get('own_property_check', {}).get('rules', [])) or 'reported') if m.get('expected') == 'detected' else 'not detected (8.3)') for m in mine) + '.')
    kfs = [l for l in findings if 'property=%s ' % pid in l]
    if kfs:
        pp.append('\n*Known findings:* %d (section 6.2).' % len(kfs))
    pp.append('')
PERPROP = '\n'.join(pp)

nown = len(glob.glob('selftest/mutants/own-*'))
nrev = len(glob.glob('selftest/mutants/revert-*'))
pairs = 0
for d in glob.glob('selftest/mutants/*/expect.json'):
    pairs += len(json.load(open(d)).get('properties', []))
for m in seeds:
    if m.get('expected') == 'detected':
        pairs += 1 + len(m.get('also_properties', []))

jt = json.load(open('tables/justified.json'))
jl = ['| rule | function | construct | reviewed reason |', '|---|---|---|---|']
for e in jt:
    jl.append('| %s | `%s` | `%s` | %s |' % (e['rule'], e['func'], e['construct'].replace('|', '\\|'), e['reason'].replace('|', '\\|')))
JUSTIFIED = '\n'.join(jl)

parts = []
for f in sorted(glob.glob('doc/*.md')):
    parts.append(open(f).read().rstrip() + '\n')
doc = '\n'.join(parts)
for k, v in {'@@RULETABLE@@': RULETABLE, '@@SEEDTABLE@@': SEEDTABLE, '@@MISSES@@': MISSES, '@@FIXES@@': FIXES,
             '@@FINDINGS@@': FINDINGS, '@@JUSTIFIED@@': JUSTIFIED, '@@PERPROP@@': PERPROP, '@@NOWN@@': str(nown), '@@NREV@@': str(nrev),
             '@@NPAIRS@@': str(pairs), '@@NFIX@@': str(n), '@@NFIXED@@': str(len(fixed)), '@@NRULES@@': str(len(rules))}.items():
    doc = doc.replace(k, v)
left = re.findall(r'@@[A-Z]+@@', doc)
if left:
    print('unreplaced placeholders:', left, file=sys.stderr)
    sys.exit(1)
open('DESIGN.md', 'w').write(doc)
print('DESIGN.md: %d lines, %d rules, %d seeds, %d fixes' % (doc.count('\n'), len(rules), len(seeds), n))

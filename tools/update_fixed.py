#!/usr/bin/env python3
"""Regenerate the 'fixed:' lines of KNOWN_FINDINGS.txt from /repo's fix: commits and tools/fixed_notes.json."""
import json, subprocess, sys
notes = json.load(open('/verif/tools/fixed_notes.json'))
log = subprocess.check_output(['git', '-C', '/repo', 'log', '--reverse', '--format=%h\t%s'], text=True).splitlines()
lines = []
missing = []
for l in log:
    h, subj = l.split('\t', 1)
    if not subj.startswith('fix:'):
        continue
    if subj not in notes:
        missing.append(subj)
        continue
    for prop, text in notes[subj]:
        lines.append(f'fixed: property={prop} {h} {text}')
if missing:
    print('no note for:', *missing, sep='\n  ')
    sys.exit(1)
p = '/verif/KNOWN_FINDINGS.txt'
keep = [l.rstrip('\n') for l in open(p) if not l.startswith('fixed:')]
while keep and keep[-1] == '':
    keep.pop()
open(p, 'w').write('\n'.join(keep + [''] + lines) + '\n')
print(len(lines), 'fixed lines')

#!/usr/bin/env python3
"""Regenerate /verif/selftest/mutants/revert-*: one mutant per fix: commit of /repo (the reverse of that commit),
kept only when it still applies to HEAD. Each mutant names the properties and rules expected to fire."""
import json, os, re, subprocess, shutil
notes = json.load(open('/verif/tools/fixed_notes.json'))
log = subprocess.check_output(['git', '-C', '/repo', 'log', '--reverse', '--format=%h\t%s'], text=True).splitlines()
out = '/verif/selftest/mutants'
for d in os.listdir(out):
    if d.startswith('revert-'):
        shutil.rmtree(os.path.join(out, d))
n = 0
for l in log:
    h, subj = l.split('\t', 1)
    if not subj.startswith('fix:'):
        continue
    patch = subprocess.check_output(['git', '-C', '/repo', 'diff', h, h + '~1'], text=True)
    p = subprocess.run(['git', '-C', '/repo', 'apply', '--check', '-'], input=patch, text=True, capture_output=True)
    slug = re.sub(r'[^a-z0-9]+', '-', subj[5:].lower()).strip('-')[:48]
    if p.returncode != 0:
        print('skip (no longer applies):', subj)
        continue
    d = os.path.join(out, 'revert-' + slug)
    os.makedirs(d)
    open(os.path.join(d, 'patch.diff'), 'w').write(patch)
    props = [x[0] for x in notes.get(subj, [])]
    rules = sorted(set(re.findall(r'\(([A-Z][0-9]+[a-z]?(?:, [A-Z][0-9]+[a-z]?)*)\)', ' '.join(x[1] for x in notes.get(subj, [])))))
    rl = sorted(set(r.strip() for g in rules for r in g.split(',')))
    json.dump({'kind': 'revert of a fix: commit', 'subject': subj, 'properties': props, 'rules': rl}, open(os.path.join(d, 'expect.json'), 'w'), indent=1)
    n += 1
print(n, 'revert mutants')

#!/usr/bin/env python3
"""Regenerate /verif/selftest/mutants/revert-*: one mutant per fix: commit of /repo (the reverse of that commit),
kept only when it still applies to HEAD. Each mutant names the properties and rules expected to fire."""
import json, os, re, subprocess, shutil
notes = json.load(open('/verif/tools/fixed_notes.json'))
log = subprocess.check_output(['git', '-C', '/repo', 'log', '--reverse', '--format=%h\t%s'], text=True).splitlines()
out = '/verif/selftest/mutants'
for d in os.listdir(out):
    if d.startswith('revert-'):
        shutil.rmtree(os.path.join(out, d))
n = 0
for l in log:
    h, subj = l.split('\t', 1)
    if not subj.startswith('fix:'):
        continue
    patch = subprocess.check_output(['git', '-C', '/repo', 'diff', h, h + '~1'], text=True)
    p = subprocess.run(['git', '-C', '/repo', 'apply', '--check', '-'], input=patch, text=True, capture_output=True)
    slug = re.sub(r'[^a-z0-9]+', '-', subj[5:].lower()).strip('-')[:48]
    if p.returncode != 0:
        # later fixes touched the same lines: revert in a scratch worktree, preferring the reverted side
        # of conflicting hunks, and keep the result only if it still builds
        import tempfile
        scratch = tempfile.mkdtemp(prefix='lvrev-', dir='/tmp'); os.rmdir(scratch)
        env = dict(os.environ, GOFLAGS='-mod=mod', GOPROXY='off', GOSUMDB='off', GOTOOLCHAIN='local'); env.pop('GOWORK', None)
        subprocess.check_call(['git', '-C', '/repo', 'worktree', 'add', '-q', '--detach', scratch, 'HEAD'])
        try:
            rv = subprocess.run(['git', '-C', scratch, 'revert', '--no-commit', '-X', 'theirs', h], capture_output=True, text=True)
            b = subprocess.run(['go', 'build', './...'], cwd=scratch, env=env, capture_output=True, text=True)
            patch = subprocess.check_output(['git', '-C', scratch, 'diff', 'HEAD'], text=True)
            if rv.returncode != 0 or b.returncode != 0 or not patch.strip():
                print('skip (no longer applies):', subj)
                continue
            print('reverted with conflict resolution:', subj)
        finally:
            subprocess.call(['git', '-C', '/repo', 'worktree', 'remove', '--force', scratch])
    d = os.path.join(out, 'revert-' + slug)
    os.makedirs(d)
    open(os.path.join(d, 'patch.diff'), 'w').write(patch)
    # a fix whose defect no rule decides (recorded as such) is not expected to be reported when reverted
    props = [x[0] for x in notes.get(subj, []) if 'no rule decides it' not in x[1]]
    rules = sorted(set(re.findall(r'\(([A-Z][0-9]+[a-z]?(?:, [A-Z][0-9]+[a-z]?)*)\)', ' '.join(x[1] for x in notes.get(subj, [])))))
    rl = sorted(set(r.strip() for g in rules for r in g.split(',')))
    json.dump({'kind': 'revert of a fix: commit', 'subject': subj, 'properties': props, 'rules': rl}, open(os.path.join(d, 'expect.json'), 'w'), indent=1)
    n += 1
print(n, 'revert mutants')

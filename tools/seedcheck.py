#!/usr/bin/env python3
"""seedcheck.py <seed-dir> [--props C01,C02|all] [--no-verify]

Confirms a seeded change (patch.diff + demo_test.go + meta.json) in a scratch
worktree of /repo's HEAD, then runs the lv checks against the changed tree
and reports which checks raise a violation.

  1. demo passes on the clean tree
  2. patch applies, the tree builds, vets, and the whole existing test suite passes
  3. demo fails with the patch
  4. lv check <property> (LV_REPO=<scratch>, --no-write): exit code, rules that fired

The scratch worktree is removed at the end. Nothing is written to /repo.
"""
import json, os, re, shutil, subprocess, sys, tempfile

ENV = dict(os.environ, GOFLAGS='-mod=mod', GOPROXY='off', GOSUMDB='off', GOTOOLCHAIN='local')
ENV.pop('GOWORK', None)


def run(cmd, cwd=None, env=None, timeout=900):
    p = subprocess.run(cmd, cwd=cwd, env=env or ENV, stdout=subprocess.PIPE, stderr=subprocess.STDOUT, text=True, timeout=timeout)
    return p.returncode, p.stdout


def main():
    args = sys.argv[1:]
    if not args:
        print(__doc__)
        return 2
    seed = os.path.abspath(args[0])
    props = None
    verify = True
    for i, a in enumerate(args[1:]):
        if a == '--props':
            props = args[i + 2]
        if a == '--no-verify':
            verify = False
    meta = json.load(open(os.path.join(seed, 'meta.json')))
    prop = meta['property']
    if props is None:
        props = prop
    if props == 'all':
        props = ','.join('C%02d' % i for i in range(1, 21))
    race = prop == 'C04' or meta.get('race')
    scratch = tempfile.mkdtemp(prefix='lvseed-', dir='/tmp')
    os.rmdir(scratch)
    res = {'seed': seed, 'property': prop, 'summary': meta.get('summary', '')}
    try:
        rc, out = run(['git', '-C', '/repo', 'worktree', 'add', '-q', '--detach', scratch, 'HEAD'])
        if rc != 0:
            print(out)
            return 2
        demo = os.path.join(seed, 'demo_test.go')
        demo_dst = os.path.join(scratch, 'zz_demo_test.go')
        test_cmd = ['go', 'test', '-run', 'TestSeedDemo', '-count=1'] + (['-race'] if race else []) + ['.']
        if verify:
            shutil.copy(demo, demo_dst)
            rc, out = run(test_cmd, cwd=scratch)
            res['demo_clean_pass'] = rc == 0
            if rc != 0:
                res['demo_clean_output'] = out[-1500:]
            os.remove(demo_dst)
        rc, out = run(['git', '-C', scratch, 'apply', '--whitespace=nowarn', os.path.join(seed, 'patch.diff')])
        res['patch_applies'] = rc == 0
        if rc != 0:
            res['patch_output'] = out[-1500:]
            print(json.dumps(res, indent=1))
            return 1
        if verify:
            rc, out = run(['go', 'build', './...'], cwd=scratch)
            res['builds'] = rc == 0
            rc2, out2 = run(['go', 'vet', './...'], cwd=scratch)
            res['vets'] = rc2 == 0
            rc3, out3 = run(['go', 'test', '-count=1', './...'], cwd=scratch)
            res['suite_passes'] = rc3 == 0
            if rc3 != 0:
                res['suite_output'] = out3[-1500:]
            shutil.copy(demo, demo_dst)
            rc, out = run(test_cmd, cwd=scratch)
            res['demo_patched_fails'] = rc != 0
            res['demo_patched_output'] = out[-800:]
            os.remove(demo_dst)
        env = dict(ENV, LV_REPO=scratch)
        res['checks'] = {}
        for pid in props.split(','):
            rc, out = run(['/verif/bin/lv', 'check', pid, '--no-write'], env=env)
            rules = sorted(set(re.findall(r'^rule (\S+) violated', out, re.M)))
            viol = re.findall(r'^rule \S+ violated at (.*)$', out, re.M)
            res['checks'][pid] = {'exit': rc, 'rules': rules, 'violations': viol[:6]}
        res['detected_by_own_property'] = res['checks'].get(prop, {}).get('exit') == 1
        res['detected_by'] = [p for p, c in res['checks'].items() if c['exit'] == 1]
    finally:
        run(['git', '-C', '/repo', 'worktree', 'remove', '--force', scratch])
        shutil.rmtree(scratch, ignore_errors=True)
        run(['git', '-C', '/repo', 'worktree', 'prune'])
    print(json.dumps(res, indent=1))
    return 0


if __name__ == '__main__':
    sys.exit(main())
